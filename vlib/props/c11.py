"""C11 Results depend only on the arguments, not on earlier calls or thread timing."""
import hashlib
import json
import os
import subprocess
import sys
import time

import numpy as np
import xarray as xr

PID = 'C11'
RULE = ("call specs = (function, parameter variant, dtype, backend) over 42 public functions plus six 130-170 cell-wide 'big' variants (compiled mode only; two per sequence), every function in >= 3 variants that "
        "differ in parameters (targets, max_distance, metric, output mode, kernel shape, k, bins, connectivity, soil factor, seed), "
        "dtype and backend, defaults interleaved with explicit arguments; a seeded sequence of 12-30 specs is executed in one "
        "process (every spec repeated at a later position), then (a) a sample of its calls is replayed each in a fresh interpreter, "
        "(b) the whole sequence is replayed in reversed order in another process under a different NUMBA_NUM_THREADS / Dask worker "
        "count; results are compared by sha256 of bytes+dtype+shape; module tables and __defaults__ of the public functions are "
        "snapshotted after every call; plus ordered pairs (A, B) of specs of one function that differ in parameters/dtype/raster size: B after A in a new process must equal B alone; non-trivial = distinct (spec, predecessor spec) pairs compared with a fresh process")
BUDGET = {'quick': 340, 'thorough': 1800}
MODES = {'quick': [('J', 8), ('I', 8)], 'thorough': [('J', 8), ('I', 8)]}
FLOORS = {'quick': {'repeat_identical': 141, 'fresh_process_identical': 48, 'reordered_other_threads_identical': 220, 'functions_in_sequences': 1,
                    'state_tables_unchanged': 250, 'compiled_mode_sequences': 4, 'pair_second_call_equals_fresh': 36, 'edited_argument_recomputed': 100, 'joint_compute_equals_separate': 25},
          'thorough': {'repeat_identical': 2500, 'fresh_process_identical': 1200}}
ASSUMPTIONS = ['bump() is excluded: it draws from the unseeded global RNG by design',
               'compiled-mode workers are the ones that can see stale JIT specialisations (Numba freezes closure/global values at compile time); '
               'interpreted-mode workers multiply the number of histories for Python-level state (mutable defaults, module tables)',
               'a changed module table / __defaults__ is recorded as a witness; the verdict is always a differing result digest',
               'thread-count independence is observed through NUMBA_NUM_THREADS in {1,4,16} and Dask threaded schedulers with the same counts; '
               'numba.threading_layer() is polled: no kernel in the tree runs with parallel=True (reported in the evidence)']

K3 = np.array([[0., 1, 0], [1, 1, 1], [0, 1, 0]])
K35 = np.array([[1., 0, 1, 1, 0], [0, 1, 1, 0, 0], [1, 1, 1, 0, 1]])
K13 = np.array([[1., 1, 0]])


def _catalogue():
    """name -> (n_rasters, n_variants, builder(variant, rasters, aux) -> result, dask_ok, raster kind)."""
    import xrspatial
    from xrspatial import focal, convolution, classify, multispectral as ms, zonal, local
    from xrspatial.experimental.polygonize import polygonize
    C = {}
    C['slope'] = (1, 1, lambda v, r, x: xrspatial.slope(r[0]), True, 'elev')
    C['aspect'] = (1, 1, lambda v, r, x: xrspatial.aspect(r[0]), True, 'elev')
    C['curvature'] = (1, 1, lambda v, r, x: xrspatial.curvature(r[0]), True, 'elev')
    C['hillshade'] = (1, 3, lambda v, r, x: xrspatial.hillshade(r[0]) if v == 0 else xrspatial.hillshade(r[0], azimuth=[0, 90, 300][v], angle_altitude=[0, 45, 10][v]), True, 'elev')
    C['focal.mean'] = (1, 4, lambda v, r, x: [lambda: focal.mean(r[0]), lambda: focal.mean(r[0], passes=2), lambda: focal.mean(r[0], excludes=[0]), lambda: focal.mean(r[0], passes=3, excludes=[np.nan, 1.0])][v](), True, 'small')
    C['focal.apply'] = (1, 4, lambda v, r, x: focal.apply(r[0], [K3, K35, K13, K3][v], [focal._calc_mean, focal._calc_sum, focal._calc_max, focal._calc_std][v]), True, 'small')
    C['focal_stats'] = (1, 3, lambda v, r, x: [lambda: focal.focal_stats(r[0], K3), lambda: focal.focal_stats(r[0], K35, ['sum', 'max']), lambda: focal.focal_stats(r[0], K13, ['range'])][v](), True, 'small')
    C['hotspots'] = (1, 3, lambda v, r, x: focal.hotspots(r[0], [K3, K35, K13][v]), True, 'elev')
    C['convolution_2d'] = (1, 3, lambda v, r, x: convolution.convolution_2d(r[0], [K3, K35 * 0.5, K13][v]), True, 'small')
    C['binary'] = (1, 3, lambda v, r, x: classify.binary(r[0], [[1], [2, 3], [0, 4, 5]][v]), True, 'small')
    C['reclassify'] = (1, 3, lambda v, r, x: classify.reclassify(r[0], bins=[[2, 4], [1, 2, 3, 9], [0.5]][v], new_values=[[1, 2], [5, 6, 7, 8], [1]][v]), True, 'small')
    C['quantile'] = (1, 3, lambda v, r, x: classify.quantile(r[0], k=[4, 2, 7][v]) if v else classify.quantile(r[0]), False, 'elev')
    C['equal_interval'] = (1, 3, lambda v, r, x: classify.equal_interval(r[0], k=[5, 2, 9][v]) if v else classify.equal_interval(r[0]), True, 'elev')
    C['natural_breaks'] = (1, 3, lambda v, r, x: classify.natural_breaks(r[0], k=[5, 3, 4][v], **({} if v < 2 else {'num_sample': 10})), False, 'elev')
    for nm, n in (('arvi', 3), ('gci', 2), ('nbr', 2), ('nbr2', 2), ('ndvi', 2), ('ndmi', 2), ('sipi', 3), ('ebbi', 3)):
        C[nm] = (n, 1, (lambda f: lambda v, r, x: f(*r))(getattr(ms, nm)), True, 'band')
    C['evi'] = (3, 3, lambda v, r, x: [lambda: ms.evi(*r), lambda: ms.evi(*r, c1=1.0, c2=2.0, soil_factor=0.5, gain=1.0), lambda: ms.evi(*r, gain=5.0)][v](), True, 'band')
    C['savi'] = (2, 3, lambda v, r, x: [lambda: ms.savi(*r), lambda: ms.savi(*r, soil_factor=0.0), lambda: ms.savi(*r, soil_factor=-0.5)][v](), True, 'band')
    C['true_color'] = (3, 2, lambda v, r, x: ms.true_color(*r) if v == 0 else ms.true_color(*r, nodata=3, c=5.0, th=0.2), True, 'band')
    for nm in ('proximity', 'allocation', 'direction'):
        f = getattr(xrspatial, nm)
        # 12 variants = targets {default, [2,3]} x metric {EUCLIDEAN, MANHATTAN} x max_distance {unbounded, 2.5 cells, the raster's own extent}:
        # v = t*6 + m*3 + d. These are exactly the values the per-call compiled closure freezes.
        def _prox(f):
            def call(v, r, x):
                t, m, d = v // 6, (v // 3) % 2, v % 3
                kw = {}
                if t: kw['target_values'] = [2, 3]
                if m: kw['distance_metric'] = 'MANHATTAN'
                if d == 1: kw['max_distance'] = x['cell'] * 2.5
                if d == 2: kw['max_distance'] = x['diag']
                return f(r[0], **kw)
            return call
        C[nm] = (1, 12, _prox(f), True, 'targets')
    C['a_star_search'] = (1, 4, lambda v, r, x: [lambda: xrspatial.a_star_search(r[0], x['start'], x['goal'], barriers=[0]),
                                                lambda: xrspatial.a_star_search(r[0], x['start'], x['goal'], barriers=[0], connectivity=4),
                                                lambda: xrspatial.a_star_search(r[0], x['start'], x['goal'], barriers=[0, 1], snap_start=True, snap_goal=True),
                                                lambda: xrspatial.a_star_search(r[0], x['goal'], x['start'], barriers=[])][v](), False, 'targets')
    C['viewshed'] = (1, 3, lambda v, r, x: [lambda: xrspatial.viewshed(r[0], x=x['vx'], y=x['vy']), lambda: xrspatial.viewshed(r[0], x=x['vx'], y=x['vy'], observer_elev=5),
                                           lambda: xrspatial.viewshed(r[0], x=x['vx2'], y=x['vy'], observer_elev=1, target_elev=2)][v](), False, 'elev')
    C['regions'] = (1, 2, lambda v, r, x: zonal.regions(r[0], neighborhood=[4, 8][v]), False, 'targets')
    def _zstats(v, r, x):
        if v == 4:      # user reducers, one of them named like a built-in statistic (NumPy backend only)
            return zonal.stats(r[0], r[1], stats_funcs={'std': lambda z: float(np.std(z, ddof=1)) if len(z) > 1 else 0.0, 'mean': lambda z: float(np.median(z))})
        return [lambda: zonal.stats(r[0], r[1]), lambda: zonal.stats(r[0], r[1], stats_funcs=['sum', 'count']), lambda: zonal.stats(r[0], r[1], zone_ids=[2, 1], nodata_values=3),
                lambda: zonal.stats(r[0], r[1], stats_funcs=['var', 'min'], zone_ids=[0, 3])][v]()
    C['zonal.stats'] = (2, 5, _zstats, True, 'zones')
    C['zonal.crosstab'] = (2, 3, lambda v, r, x: [lambda: zonal.crosstab(r[0], r[1]), lambda: zonal.crosstab(r[0], r[1], agg='percentage', cat_ids=[1, 3]), lambda: zonal.crosstab(r[0], r[1], zone_ids=[3, 1], nodata_values=2)][v](), True, 'zones')
    C['zonal.trim'] = (1, 2, lambda v, r, x: zonal.trim(r[0], values=[(0,), (0, 1)][v]), False, 'targets')
    C['zonal.crop'] = (2, 2, lambda v, r, x: zonal.crop(r[0], r[1], zones_ids=[(1,), (2, 3)][v]), False, 'zones')
    C['polygonize'] = (1, 2, lambda v, r, x: polygonize(r[0], connectivity=[4, 8][v]), False, 'targets')
    C['perlin'] = (1, 3, lambda v, r, x: [lambda: xrspatial.perlin(r[0]), lambda: xrspatial.perlin(r[0], freq=(3, 2), seed=11), lambda: xrspatial.perlin(r[0], seed=12)][v](), True, 'zeros')
    C['generate_terrain'] = (1, 2, lambda v, r, x: xrspatial.generate_terrain(r[0], x_range=(0, 100), y_range=(0, 50), seed=[3, 7][v], zfactor=[4000, 10][v]), True, 'zeros')
    C['circle_kernel'] = (0, 4, lambda v, r, x: convolution.circle_kernel(*[(1, 1, 3), (1, 2, 3), (1, 1, 2), (2, 2, '6 m')][v]), False, 'none')
    C['annulus_kernel'] = (0, 4, lambda v, r, x: convolution.annulus_kernel(*[(1, 1, 3, 1), (1, 2, 3, 1), (1, 1, 2, 1), (2, 2, 6, 2)][v]), False, 'none')
    # large rasters: a kernel switched to parallel execution only races when blocks/threads really overlap in time
    C['big.focal.apply'] = (1, 2, lambda v, r, x: focal.apply(r[0], [K3, K35][v], [focal._calc_mean, focal._calc_max][v]), True, 'bigelev')
    C['big.focal_stats'] = (1, 1, lambda v, r, x: focal.focal_stats(r[0], K3, ['max', 'mean']), True, 'bigelev')
    C['big.convolution_2d'] = (1, 1, lambda v, r, x: convolution.convolution_2d(r[0], K35), True, 'bigelev')
    C['big.focal.mean'] = (1, 1, lambda v, r, x: focal.mean(r[0], passes=2), True, 'bigelev')
    C['big.slope'] = (1, 1, lambda v, r, x: xrspatial.slope(r[0]), True, 'bigelev')
    C['big.hotspots'] = (1, 1, lambda v, r, x: focal.hotspots(r[0], K3), True, 'bigelev')
    C['big.generate_terrain'] = (1, 1, lambda v, r, x: xrspatial.generate_terrain(r[0], x_range=(0, 100), y_range=(0, 50), seed=5, zfactor=4000), False, 'bigzeros')
    C['big.perlin'] = (1, 1, lambda v, r, x: xrspatial.perlin(r[0], freq=(4, 3), seed=9), False, 'bigzeros')
    # zones of more than 65536 cells with values of mixed magnitude: a reduction whose partition follows the thread count shows in the last digits
    C['big.zonal.stats'] = (2, 2, lambda v, r, x: zonal.stats(r[0], r[1], stats_funcs=[['sum', 'mean'], ['mean', 'std', 'var', 'count']][v]), False, 'bigzones')
    C['local.cell_stats'] = (3, 3, lambda v, r, x: local.cell_stats(xr.Dataset({'a': r[0], 'b': r[1], 'c': r[2]}), **[{}, {'func': 'max'}, {'func': 'std', 'data_vars': ['c', 'a']}][v]), False, 'small')
    C['local.combine'] = (3, 2, lambda v, r, x: local.combine(xr.Dataset({'a': r[0], 'b': r[1], 'c': r[2]}), **[{}, {'data_vars': ['b', 'a']}][v]), False, 'small')
    C['local.rank'] = (3, 1, lambda v, r, x: local.rank(xr.Dataset({'a': r[0], 'b': r[1], 'ref': r[2]}), 'ref'), False, 'rank')
    C['local.greater_frequency'] = (3, 1, lambda v, r, x: local.greater_frequency(xr.Dataset({'a': r[0], 'b': r[1], 'ref': r[2]}), 'ref'), False, 'small')
    return C


_C = {}
DTYPES = ['float64', 'float32', 'int32', 'int64', 'uint8']


def cat():
    if not _C:
        _C.update(_catalogue())
    return _C


def all_specs():
    out = []
    for nm, (n, nv, f, dask_ok, kind) in sorted(cat().items()):
        for v in range(nv):
            for dt in DTYPES:
                for dk in ([0, 1] if dask_ok else [0]):
                    if nm == 'zonal.stats' and v == 4 and dk:
                        continue
                    out.append('%s|%d|%s|%d' % (nm, v, dt, dk))
    return out


def _stable_rng(*parts):
    h = hashlib.blake2b(repr(parts).encode(), digest_size=8).digest()
    return np.random.default_rng(int.from_bytes(h, 'big'))


def build(spec, seed):
    nm, v, dt, dk = spec.split('|'); v = int(v); dk = int(dk)
    n, nv, f, dask_ok, kind = cat()[nm]
    # the rasters depend on (function, dtype, backend, seed) only - not on the parameter variant - so that two variants of one
    # function see the same data (and, on Dask, input arrays with identical names)
    rng = _stable_rng('C11spec', nm, dt, dk, seed)
    H, W = int(rng.integers(4, 9)), int(rng.integers(4, 9))
    if kind == 'bigelev':
        H, W = int(rng.integers(130, 171)), int(rng.integers(130, 171))
    if kind == 'bigzeros':
        H, W = int(rng.integers(256, 281)), int(rng.integers(256, 281))
    if kind == 'bigzones':
        H, W = int(rng.integers(300, 331)), int(rng.integers(300, 331))
    small_extent = nm in ('proximity', 'allocation', 'direction') and v % 3 == 2
    if small_extent:
        H, W = int(rng.integers(3, 6)), int(rng.integers(3, 6))          # a small raster whose own extent is the search radius
    if kind in ('zeros', 'bigzeros') and np.dtype(dt).kind != 'f':
        dt = 'float32'
    if nm == 'viewshed':
        dt = dt if np.dtype(dt).kind == 'f' or dt in ('int32', 'int64') else 'int32'
    cell = float(rng.choice([1.0, 0.5, 30.0]))
    if small_extent:
        cell = float(rng.choice([1.0, 0.5]))
    ys = (np.arange(H) * cell)[::-1].copy(); xs = np.arange(W) * cell + 10
    rasters = []
    for i in range(n):
        if kind in ('elev', 'bigelev'): a = rng.integers(0, 40, (H, W)).astype('float64')
        elif kind == 'small': a = rng.integers(0, 6, (H, W)).astype('float64')
        elif kind == 'band': a = rng.integers(0, 200, (H, W)).astype('float64')
        elif kind == 'targets': a = np.where(rng.random((H, W)) < 0.3, rng.integers(1, 4, (H, W)), 0).astype('float64')
        elif kind == 'zones': a = rng.integers(0, 4, (H, W)).astype('float64')
        elif kind == 'bigzones':
            a = (rng.random((H, W)) < 0.1).astype('float64') if i == 0 else rng.standard_normal((H, W)) * 10.0 ** rng.integers(-6, 7, (H, W))
        elif kind == 'rank': a = rng.integers(1, 3, (H, W)).astype('float64') if i == 2 else rng.integers(0, 6, (H, W)).astype('float64')
        else: a = np.zeros((H, W))
        d_ = dt
        if kind == 'rank' and i == 2: d_ = 'int64'
        if kind == 'bigzones': d_ = 'int64' if i == 0 else ('float64' if np.dtype(dt).kind != 'f' else dt)
        arr = a.astype(d_)
        if np.dtype(d_).kind == 'f' and kind in ('elev', 'small', 'band') and nm not in ('viewshed', 'natural_breaks') and not nm.startswith('local.') and rng.random() < 0.4:
            arr[rng.random((H, W)) < 0.1] = np.nan
        data = arr
        if dk:
            import dask.array as da
            from vlib import gen
            ch = ((H,), (W,))
            if kind == 'bigelev':
                ch = (gen.random_composition(H, rng, 0.012), gen.random_composition(W, rng, 0.012))
            for _t in range(0 if kind == 'bigelev' else 30):
                c2 = gen.random_chunks((H, W), rng)
                if 2 <= len(c2[0]) * len(c2[1]) <= 6:          # C11 is not about chunking; many tiny blocks only cost time
                    ch = c2; break
            data = da.from_array(arr, chunks=ch)
        attrs = {'res': (cell, cell)}
        # metadata a raster read from a file carries (rioxarray): the library is not documented to act on any of it, and anything it
        # remembers from one raster's metadata must not leak into a later call
        arng = _stable_rng('C11attrs', nm, dt, dk, seed, i)
        if arng.random() < 0.5:
            fv = float(arr.flat[int(arng.integers(0, arr.size))]) if arng.random() < 0.6 else -9999.0
            if fv == fv:
                attrs.update({'_FillValue': fv, 'nodatavals': (fv,), 'scale_factor': 1.0, 'add_offset': 0.0})
        rasters.append(xr.DataArray(data, dims=['y', 'x'], coords={'y': ys, 'x': xs}, attrs=attrs, name='r%d' % i))
    aux = dict(cell=cell, diag=float(np.hypot((H - 1) * cell, (W - 1) * cell)) * (1.0 if rng.random() < 0.3 else 1.25), start=(float(ys[0]), float(xs[0])), goal=(float(ys[-1]), float(xs[-1])), vx=float(xs[W // 2]), vx2=float(xs[1]), vy=float(ys[H // 2]))
    return (lambda: f(v, rasters, aux)), rasters


def digest(res, threads):
    import pandas as pd
    h = hashlib.sha256()

    def feed(a):
        a = np.asarray(a)
        h.update(str(a.dtype).encode()); h.update(str(a.shape).encode()); h.update(np.ascontiguousarray(a).tobytes())
    import dask
    import dask.array as da
    with dask.config.set(scheduler='threads' if threads > 1 else 'synchronous', **({'num_workers': threads} if threads > 1 else {})):
        if isinstance(res, xr.DataArray):
            d = res.data
            feed(d.compute() if isinstance(d, da.Array) else d)
            h.update(repr(tuple(res.dims)).encode()); h.update(repr(sorted(res.attrs.items(), key=str)).encode())
        elif isinstance(res, xr.Dataset):
            for k in sorted(res.data_vars):
                d = res[k].data
                feed(d.compute() if isinstance(d, da.Array) else d)
        elif isinstance(res, pd.DataFrame):
            feed(res.to_numpy(dtype='float64')); h.update(repr([str(c) for c in res.columns]).encode())
        elif hasattr(res, 'compute'):
            r2 = res.compute()
            feed(r2.to_numpy(dtype='float64')); h.update(repr([str(c) for c in r2.columns]).encode())
        elif isinstance(res, tuple):
            col, polys = res
            feed(np.asarray(list(col), dtype='float64'))
            for p in polys:
                for ring in p:
                    feed(ring)
        else:
            h.update(repr(res).encode())
    return h.hexdigest()


def run_specs(specs, seed, threads):
    """executes specs in order; returns list of digests (or 'EXC:<type>')."""
    import warnings
    warnings.simplefilter('ignore')
    out = []
    for s in specs:
        try:
            call, rasters = build(s, seed)
            res = call()
            out.append(digest(res, threads))
        except Exception as e:
            out.append('EXC:%s:%s' % (type(e).__name__, str(e)[:80]))
    return out


def state_snapshot():
    import xrspatial
    from xrspatial import zonal, local, convolution, focal, classify, multispectral
    P = sys.modules['xrspatial.proximity']
    snap = {
        'zonal._DEFAULT_STATS': sorted((k, id(v)) for k, v in zonal._DEFAULT_STATS.items()), 'zonal._DASK_STATS': sorted(zonal._DASK_STATS), 'zonal._DASK_BLOCK_STATS': sorted(zonal._DASK_BLOCK_STATS),
        'local.funcs': sorted(local.funcs), 'convolution.UNITS': sorted(convolution.UNITS.items()), 'proximity.DISTANCE_METRICS': sorted(P.DISTANCE_METRICS.items()),
    }
    mods = [zonal, local, convolution, focal, classify, multispectral, P, sys.modules['xrspatial.pathfinding'], sys.modules['xrspatial.viewshed'],
            sys.modules['xrspatial.perlin'], sys.modules['xrspatial.terrain'], sys.modules['xrspatial.slope'], sys.modules['xrspatial.hillshade']]
    for m in mods:
        for nm, obj in vars(m).items():
            if callable(obj) and getattr(obj, '__module__', None) == m.__name__ and getattr(obj, '__defaults__', None):
                snap['%s.%s.__defaults__' % (m.__name__, nm)] = repr(obj.__defaults__)
    return snap


def plan(tier, seed):
    q = tier == 'quick'
    seqs = [('seq', i) for i in range(16 if q else 120)]
    # ordered pairs (A, B) of specs of ONE function that differ in parameters / dtype / raster size: B after A in a new
    # process must equal B alone in a new process (stale per-function caches and frozen closures show exactly here)
    pairs = [('pairs', i) for i in range(16 if q else 60)]
    # call, edit the argument rasters in place, call again: the second result must be that of the edited rasters
    edits = [('edit', i) for i in range(32 if q else 320)]
    # two lazy Dask results computed in ONE graph must equal the results computed separately (task keys must not collide)
    joints = [('joint', i) for i in range(16 if q else 160)]
    if q:
        return seqs + pairs + edits + joints
    # thorough: the kinds are merged proportionally, so that a run cut short by its time budget has still driven every kind
    # (an earlier thorough run spent its whole budget on sequences and pairs and was INCONCLUSIVE on the other two)
    keyed = [((i + 0.5) / len(L), k, d) for k, L in enumerate((seqs, pairs, edits, joints)) for i, d in enumerate(L)]
    return [d for _, _, d in sorted(keyed)]


def shard_filter(descs, shard, nshards, mode):
    sel = [d for i, d in enumerate(descs) if (i % 2 == 0) == (mode == 'J')]
    return [d for i, d in enumerate(sel) if i % nshards == shard]


def _sub(specs, seed, threads, numba_threads, timeout=900):
    env = dict(os.environ)
    env['NUMBA_NUM_THREADS'] = str(numba_threads)
    cmd = [sys.executable, '-m', 'vlib.props.c11', '--specs', ';'.join(specs), '--seed', str(seed), '--threads', str(threads)]
    r = subprocess.run(cmd, env=env, capture_output=True, text=True, timeout=timeout)
    for line in r.stdout.splitlines():
        if line.startswith('DIGESTS '):
            return json.loads(line[8:])
    raise RuntimeError('replay subprocess failed rc=%s: %s' % (r.returncode, (r.stderr or r.stdout)[-500:]))


def check_pairs(rec, idx, rng, tier):
    specs_all = all_specs()
    J = rec.mode == 'J'
    npairs = (1 if tier == 'quick' else 8) if J else (14 if tier == 'quick' else 24)
    multi = sorted(nm for nm, v in cat().items() if v[1] >= 2 and not nm.startswith('big.') and not (J and nm == 'viewshed'))
    closure_family = ['proximity', 'allocation', 'direction']
    for q in range(npairs):
        nm = str(rng.choice(closure_family)) if rng.random() < 0.5 else str(rng.choice(multi))
        cands = [s for s in specs_all if s.startswith(nm + '|') and s.endswith('|0')]      # numpy backend: cheaper, same wrappers
        byvar = {}
        for s in cands:
            byvar.setdefault(s.split('|')[1], []).append(s)
        va, vb = [str(v) for v in rng.choice(sorted(byvar), size=2, replace=False)]
        if nm in closure_family and rng.random() < 0.7:
            # the per-call compiled closure freezes max_distance / target_values / metric: pairs that differ in exactly one of them
            t, m, d = int(rng.integers(0, 2)), int(rng.integers(0, 2)), int(rng.integers(0, 3))
            which = int(rng.integers(0, 3))
            t2, m2, d2 = (1 - t, m, d) if which == 0 else ((t, 1 - m, d) if which == 1 else (t, m, int(rng.choice([x_ for x_ in range(3) if x_ != d]))))
            if rng.random() < 0.4:
                # the search radius is the classic frozen value: a call whose finite max_distance reaches across its own (small)
                # raster, followed by an unbounded call (or the other way round)
                d, d2 = (2, 0) if rng.random() < 0.7 else (0, 2); t2, m2 = t, m
            va, vb = str(t * 6 + m * 3 + d), str(t2 * 6 + m2 * 3 + d2)
        A = str(rng.choice(byvar[va])); B = str(rng.choice(byvar[vb]))
        nthr = int(rng.choice([1, 4]))
        rec.evaluation(2)
        try:
            dab = _sub([A, B], rec.seed, nthr, nthr); db = _sub([B], rec.seed, nthr, nthr)
        except Exception as e:
            rec.harness_errors.append({'kind': 'pairs', 'idx': idx, 'tb': 'pair replay failed: %r' % e}); continue
        if dab[1] != db[0] and not (dab[1].startswith('EXC') and db[0].startswith('EXC')):
            rec.violation('history.call_after_other_parameters_differs', 'call %s gives a different result when it follows %s in the same process than alone in a fresh interpreter'
                          % (B, A), dict(first=A, second=B, after_first=dab[1], alone=db[0], mode=rec.mode))
            continue
        rec.ok('pair_second_call_equals_fresh'); rec.add('pair_functions', nm); rec.nontriv('pair', A, B)
        if len(rec.samples) < 1:
            rec.sample(dict(pair=[A, B], note='B after A in one new process vs B alone in another; spec = function|variant|dtype|dask'))


def check_edit(rec, idx, rng, tier):
    """Per function: call on rasters R, edit R's arrays in place (same objects), call again; the second result must equal
    the result of the same call on fresh deep copies of the edited rasters (no identity-keyed cache may survive an edit)."""
    import copy
    specs_all = [s for s in all_specs() if s.endswith('|0') and not s.startswith(('big.', 'circle_kernel', 'annulus_kernel', 'perlin', 'generate_terrain'))]
    J = rec.mode == 'J'
    heavy = ('proximity', 'allocation', 'direction', 'viewshed', 'polygonize')
    n = (6 if tier == 'quick' else 20) if J else (25 if tier == 'quick' else 60)
    import warnings
    warnings.simplefilter('ignore')
    for q in range(n):
        s = str(rng.choice(specs_all))
        if J and tier == 'quick' and s.split('|')[0] in heavy and rng.random() < 0.8:
            continue
        rec.evaluation()
        try:
            call, rasters = build(s, rec.seed)
            if not rasters or not all(isinstance(r.data, np.ndarray) and r.data.flags.writeable for r in rasters):
                continue
            d1 = digest(call(), 1)
            # in-place edit of the same objects
            for r in rasters:
                a = r.data
                m = rng.random(a.shape) < 0.3
                if a.dtype.kind == 'f':
                    a[m] = np.round(a[m] * 0.5 + 3)
                else:
                    a[m] = (a[m] // 2 + 1).astype(a.dtype)
            d2 = digest(call(), 1)
            # reference: same call on fresh copies of the edited rasters
            call_f, rasters_f = build(s, rec.seed)
            for rf, r in zip(rasters_f, rasters):
                rf.data[...] = r.data
            d3 = digest(call_f(), 1)
        except Exception as e:
            rec.rej('raises.' + s.split('|')[0]); continue
        if d2 != d3:
            rec.violation('history.result_ignores_in_place_edit', 'call %s after an in-place edit of its argument rasters differs from the same call on fresh copies of the edited rasters%s'
                          % (s, ' (it still returns the pre-edit result)' if d2 == d1 else ''), dict(spec=s, before_edit=d1, after_edit=d2, fresh_copy_of_edited=d3, mode=rec.mode))
            continue
        rec.ok('edited_argument_recomputed'); rec.add('edit_functions', s.split('|')[0])
        if d1 != d3:
            rec.nontriv('edit', s)


def check_joint(rec, idx, rng, tier):
    import dask
    import dask.array as da
    import warnings
    warnings.simplefilter('ignore')
    specs = [s for s in all_specs() if s.endswith('|1') and not s.startswith(('big.', 'zonal.'))]
    J = rec.mode == 'J'
    n = (4 if tier == 'quick' else 12) if J else (12 if tier == 'quick' else 30)
    heavy = ('proximity', 'allocation', 'direction')
    funcs = sorted({s.split('|')[0] for s in specs})
    multi = [f for f in funcs if len({s.split('|')[1] for s in specs if s.startswith(f + '|')}) >= 2]
    for q in range(n):
        # round-robin over the functions (those with several parameter variants twice as often), so that every one is probed in every run
        pool = funcs + multi
        nm = pool[(idx * n + q) % len(pool)]
        if J and nm in heavy and rng.random() < 0.8:
            continue
        cands = [s for s in specs if s.startswith(nm + '|')]
        A = str(rng.choice(cands))
        others = [s for s in cands if s.split('|')[1] != A.split('|')[1]] or cands
        B = str(rng.choice(others))
        if nm in heavy:
            # proximity family: B differs from A in exactly one of (targets, metric, max_distance)
            va = int(A.split('|')[1]); t, m, d = va // 6, (va // 3) % 2, va % 3
            which = int(rng.integers(0, 3))
            t2, m2, d2 = (1 - t, m, d) if which == 0 else ((t, 1 - m, d) if which == 1 else (t, m, (d + 1) % 3))
            B = '|'.join([nm, str(t2 * 6 + m2 * 3 + d2)] + A.split('|')[2:])
        if rng.random() < 0.7:
            B = B.split('|'); B[2] = A.split('|')[2]; B = '|'.join(B)          # same dtype: the rasters of A and B are then identical for one seed
        shared_first = nm in ('ndvi', 'ndmi', 'nbr', 'nbr2', 'savi', 'gci') and rng.random() < 0.5
        rec.evaluation()
        try:
            same = rng.random() < 0.7          # same raster content (=> identical dask input names), other parameters
            ref0 = build(A, rec.seed)[0]()
            ref0 = np.asarray(ref0.data.compute()) if isinstance(ref0, xr.DataArray) and isinstance(ref0.data, da.Array) else None     # A built and computed at once
            ra = build(A, rec.seed)[0](); rb = build(B, rec.seed if same else rec.seed + 1)[0]()      # A stays lazy while B is built
            if not (isinstance(ra, xr.DataArray) and isinstance(rb, xr.DataArray) and isinstance(ra.data, da.Array) and isinstance(rb.data, da.Array)):
                continue
            with dask.config.set(scheduler='threads', num_workers=4):
                ja, jb = dask.compute(ra.data, rb.data)
                sa = ra.data.compute(); sb = rb.data.compute()
        except Exception:
            rec.rej('raises.' + nm); continue
        from vlib import tol as _t
        da_ = _t.first_diff_exact(np.asarray(ja), np.asarray(sa)); db_ = _t.first_diff_exact(np.asarray(jb), np.asarray(sb))
        if da_ is None and ref0 is not None:
            dl = _t.first_diff_exact(np.asarray(sa), ref0)
            if dl is not None:
                rec.violation('history.lazy_result_changed_by_later_call', 'a lazy %s result computed after another %s call was made differs from the same result computed at once (%s then %s): %r'
                              % (nm, nm, A, B, dl), dict(first=A, second=B, mode=rec.mode))
                continue
            rec.ok('lazy_result_unaffected_by_later_call')
        if shared_first and da_ is None and db_ is None:
            # two different indices that share their first band object, evaluated in one graph
            try:
                from xrspatial import multispectral as ms_
                call_a, ras = build(A, rec.seed)
                other = [f for f in ('ndvi', 'ndmi', 'nbr') if f != nm][int(rng.integers(0, 2))]
                second = ras[1] * 0 + (ras[1] + 7)
                r1 = getattr(ms_, nm if nm in ('ndvi', 'ndmi', 'nbr') else 'ndvi')(ras[0], ras[1]); r2 = getattr(ms_, other)(ras[0], second)
                with dask.config.set(scheduler='threads', num_workers=4):
                    j1, j2 = dask.compute(r1.data, r2.data); s1 = r1.data.compute(); s2 = r2.data.compute()
                da_ = _t.first_diff_exact(np.asarray(j1), np.asarray(s1)); db_ = _t.first_diff_exact(np.asarray(j2), np.asarray(s2))
                rec.cls('joint.shared_first_band')
            except Exception:
                pass
        if da_ is not None or db_ is not None:
            rec.violation('history.joint_compute_differs', 'two %s results computed in one graph differ from the same results computed separately (%s / %s): %r %r'
                          % (nm, A, B, da_, db_), dict(first=A, second=B, mode=rec.mode))
            continue
        rec.ok('joint_compute_equals_separate'); rec.add('joint_functions', nm); rec.nontriv('joint', A, B)


def check(rec, kind, idx, rng, tier):
    if kind == 'joint':
        return check_joint(rec, idx, rng, tier)
    if kind == 'pairs':
        return check_pairs(rec, idx, rng, tier)
    if kind == 'edit':
        return check_edit(rec, idx, rng, tier)
    specs_all = all_specs()
    J = rec.mode == 'J'
    L = (int(rng.integers(6, 9)) if tier == 'quick' else int(rng.integers(10, 16))) if J else int(rng.integers(20, 31))
    # choose functions, then >= 3 variants of some of them so that parameter-differing calls of one function interleave
    names = sorted(cat())
    if J:
        names = [n for n in names if n not in ('viewshed',)] if rng.random() < 0.7 else names      # viewshed JIT costs ~19 s per process
    chosen = []
    heavy = {'proximity', 'allocation', 'direction', 'viewshed', 'polygonize'}     # re-JIT per call / long compiles
    heavy_left = 2 if (J and tier == 'quick') else (6 if J else 10 ** 6)
    if J and tier == 'quick':
        names = [n for n in names if n != 'viewshed']
    if not J:
        names = [n for n in names if not n.startswith('big.')]      # a parallel=True kernel can only race when compiled
    while len(chosen) < L:
        nm = str(rng.choice(names))
        cands = [s for s in specs_all if s.startswith(nm + '|')]
        k = min(len(cands), int(rng.integers(1, 4)))
        if nm in heavy:
            if heavy_left <= 0:
                continue
            k = min(k, heavy_left); heavy_left -= k
        for s in rng.choice(cands, size=k, replace=False):
            chosen.append(str(s))
    chosen = chosen[:L]
    if J:
        bigs = [s for s in specs_all if s.startswith('big.')]
        for s in rng.choice(bigs, size=2, replace=False):
            chosen.append(str(s))
    order = [chosen[i] for i in rng.permutation(len(chosen))]
    # each spec is executed again at a later position (repeat clause)
    seq = list(order)
    for s in order:
        seq.insert(int(rng.integers(seq.index(s) + 1, len(seq) + 1)), s)
    seed = rec.seed
    threads0 = int(rng.choice([1, 4]))
    base_state = state_snapshot()
    t0 = time.time()
    import warnings
    warnings.simplefilter('ignore')
    digs = []
    state_changes = []
    for pos, s in enumerate(seq):
        rec.evaluation()
        try:
            call, rasters = build(s, seed)
            res = call()
            digs.append(digest(res, threads0))
        except Exception as e:
            digs.append('EXC:%s:%s' % (type(e).__name__, str(e)[:80]))
        st = state_snapshot()
        if st != base_state:
            ch = [k for k in st if st.get(k) != base_state.get(k)] + [k for k in base_state if k not in st]
            state_changes.append((pos, s, ch[:3]))
            base_state = st
        else:
            rec.ok('state_tables_unchanged')
    pay = dict(sequence=seq, threads_in_sequence=threads0, mode=rec.mode)
    if len(rec.samples) < 1:
        rec.sample(dict(sequence=seq[:12], note='spec = function|variant|dtype|dask'))
    for pos, s, ch in state_changes:
        rec.cls('witness.module_state_changed_after_call'); rec.add('witness.changed_state', '%s after %s' % (ch, s.split('|')[0]))
    # a module table / default changed: that alone is only a witness. Decide by results: every numpy variant of the functions
    # whose call preceded the change is executed now (in this process, after the change) and alone in a fresh interpreter.
    probed = set()
    for pos, s, ch in state_changes[:3]:
        fam = s.split('|')[0]
        for spec in [x for x in specs_all if x.startswith(fam + '|') and x.endswith('|float64|0')]:
            if spec in probed:
                continue
            probed.add(spec)
            rec.evaluation()
            try:
                here = run_specs([spec], seed, 1)[0]; fresh = _sub([spec], seed, 1, 1)[0]
            except Exception as e:
                rec.harness_errors.append({'kind': kind, 'idx': idx, 'tb': 'state probe failed: %r' % e}); continue
            if here != fresh and not (here.startswith('EXC') and fresh.startswith('EXC')):
                rec.violation('history.module_state_changed_and_result_differs', 'after %s changed module state %s, call %s differs from the same call in a fresh interpreter'
                              % (s, ch, spec), dict(pay, changed=ch, after=s, spec=spec, here=here, fresh=fresh))
                return
            rec.ok('state_change_probe_identical')
    # (1) repeats inside the sequence
    first = {}
    for pos, (s, d) in enumerate(zip(seq, digs)):
        rec.add('functions', s.split('|')[0])
        if s in first:
            if d != digs[first[s]]:
                rec.violation('history.repeat_differs', 'call %s gives a different result at position %d than at position %d of the same sequence (between them: %s)'
                              % (s, pos, first[s], [x.split('|')[0] for x in seq[first[s] + 1:pos]][:8]), dict(pay, spec=s, first=first[s], second=pos, digests=[digs[first[s]], d]))
                return
            rec.ok('repeat_identical')
        else:
            first[s] = pos
    exc = [s for s, d in zip(seq, digs) if d.startswith('EXC')]
    for s in set(exc):
        rec.rej('raises.' + s.split('|')[0])
    # (2) fresh interpreter per call (sample)
    nfresh = (2 if tier == 'quick' else 5) if J else 10
    sample = [order[i] for i in rng.permutation(len(order))[:nfresh]]
    for s in sample:
        rec.evaluation()
        nthr = int(rng.choice([1, 4, 16]))
        try:
            fd = _sub([s], seed, nthr, nthr)[0]
        except Exception as e:
            rec.harness_errors.append({'kind': kind, 'idx': idx, 'tb': 'fresh replay failed: %r' % e}); continue
        pos = first[s]
        if fd != digs[pos]:
            if fd.startswith('EXC') and digs[pos].startswith('EXC'):
                continue
            rec.violation('history.differs_from_fresh_process', 'call %s at position %d of the sequence (after %s) differs from the same call alone in a fresh interpreter (threads %d)'
                          % (s, pos, [x.split('|')[0] for x in seq[max(0, pos - 4):pos]], nthr), dict(pay, spec=s, position=pos, in_sequence=digs[pos], fresh=fd))
            return
        rec.ok('fresh_process_identical'); rec.nontriv(s, seq[pos - 1] if pos else None)
        rec.add('thread_counts', nthr)
    # (3) whole sequence, reversed order, other thread count, separate process
    nthr = int(rng.choice([4, 16])) if threads0 == 1 else int(rng.choice([1, 16]))
    rev = list(reversed(seq))
    try:
        rd = _sub(rev, seed, nthr, nthr)
    except Exception as e:
        rec.harness_errors.append({'kind': kind, 'idx': idx, 'tb': 'sequence replay failed: %r' % e}); return
    rd = list(reversed(rd))
    for pos, (s, a, b) in enumerate(zip(seq, digs, rd)):
        rec.evaluation()
        if a != b and not (a.startswith('EXC') and b.startswith('EXC')):
            rec.violation('history.order_or_thread_count_changes_result', 'call %s differs between the sequence (threads %d, position %d) and the reversed replay under %d threads'
                          % (s, threads0, pos, nthr), dict(pay, spec=s, position=pos, in_sequence=a, reversed_replay=b, replay_threads=nthr))
            return
        rec.ok('reordered_other_threads_identical')
    rec.add('thread_counts', nthr); rec.add('thread_counts', threads0)
    if J:
        rec.ok('compiled_mode_sequences')
    try:
        import numba
        try:
            layer = numba.threading_layer()
            rec.cls('witness.numba_threading_layer_loaded.' + str(layer))
        except Exception:
            rec.cls('numba_threading_layer_never_loaded')
    except Exception:
        pass
    rec.mx('max_sequence_length', len(seq))


def finish_worker(rec):
    rec.ok('functions_in_sequences', len(rec.sets.get('functions', ())))


if __name__ == '__main__':
    import argparse
    ap = argparse.ArgumentParser()
    ap.add_argument('--specs'); ap.add_argument('--seed', type=int); ap.add_argument('--threads', type=int, default=1)
    a = ap.parse_args()
    import warnings
    warnings.simplefilter('ignore')
    import xrspatial  # noqa
    d = run_specs(a.specs.split(';'), a.seed, a.threads)
    print('DIGESTS ' + json.dumps(d))
