"""C04 Cross-tabulation is a true contingency table under any zone/category selection."""
import itertools

import numpy as np
import xarray as xr

from vlib import gen, tol, zgen
from vlib.refs import zonal_ref as zr

PID = 'C04'
RULE = ("zones rasters (int/float ids, NaN/+-inf zone cells) x categorical value rasters over small alphabets (int and float dtypes, "
        "NaN/inf cells), nodata in {None, present, absent}; zone_ids / cat_ids: None, subsets, permutations, absent ids; for <= 4 "
        "zones x <= 4 categories every subset and permutation of both id lists (exhaustive kind); agg count and percentage (2-D), "
        "the seven aggregates on 3-D values (NumPy) and count on 3-D Dask; NumPy backend (zones and values independently in C / Fortran / strided / negative-stride layouts) and Dask with equal chunking; non-trivial "
        "= distinct (zones, values, selection, agg) with >= 2 zones, >= 2 categories and a restricted or permuted selection")
BUDGET = {'quick': 200, 'thorough': 700}
FLOORS = {'quick': {'entries': 400, 'restricted.cat_ids': 150, 'restricted.zone_ids_unsorted': 100, 'percentage.rows_sum_100': 51,
                    'xtab3d': 60, 'layouts_differ_between_inputs': 60, 'dask.2d': 34, 'exhaustive.selections': 1500},
          'thorough': {'entries': 4000, 'exhaustive.selections': 30000, 'xtab3d': 1000}}
EXHAUSTIVE = {'quick': ['for each generated raster with <= 3 zones and <= 3 categories: every non-empty ordered selection (subset x permutation) of zone_ids crossed with every one of cat_ids'],
              'thorough': ['for each generated raster with <= 4 zones and <= 4 categories: every non-empty ordered selection (subset x permutation) of zone_ids crossed with every one of cat_ids']}
ASSUMPTIONS = ['row and column order of the returned frame is not judged; every row is judged against the zone it is labelled with',
               '3-D: an aggregate over an empty cell set is judged only for count/sum (0); min/max raise and mean/std/var are NaN there']


def plan(tier, seed):
    n = 250 if tier == 'quick' else 2500
    out = [('x2', i) for i in range(n)]
    out += [('exh', i) for i in range(120 if tier == 'quick' else 600)]
    out += [('x3', i) for i in range(n // 2)]
    return out


def _judge_frame(rec, df, zones, values, zsel, csel, nodata, agg, base, clause='entries'):
    """df: pandas frame. zsel/csel: requested lists or None."""
    import pandas as pd
    uz = [u.item() for u in zr.zone_list(zones)]
    uc = [c.item() for c in zr.cats(values, nodata)]
    exp_rows = uz if zsel is None else [u for u in uz if u in set(zsel)]
    exp_cols = uc if csel is None else [c for c in uc if c in set(csel)]
    if not isinstance(df, pd.DataFrame) or 'zone' not in df.columns:
        rec.violation('crosstab.layout', 'crosstab returned %s' % type(df).__name__, base); return False
    got_rows = [float(x) for x in df['zone'].tolist()]
    got_cols = [c for c in df.columns if c != 'zone']
    pay = dict(base, got=df.to_dict('list'))
    if sorted(got_rows) != sorted(float(x) for x in exp_rows):
        rec.violation('crosstab.rows', 'row labels %s, expected the existing requested zones %s' % (got_rows, exp_rows), pay); return False
    if sorted(float(c) for c in got_cols) != sorted(float(c) for c in exp_cols):
        rec.violation('crosstab.columns', 'category columns %s, expected the existing requested categories %s' % (got_cols, exp_cols), pay); return False
    bad = None
    for ri, z in enumerate(got_rows):
        tot = zr.zone_total(zones, values, z, nodata)
        for c in got_cols:
            cnt = zr.crosstab_count(zones, values, z, c, nodata)
            g = float(df[c].iloc[ri])
            if agg == 'count':
                ok = (g == cnt)
                ref = cnt
            else:
                ref = (cnt / tot * 100.0) if tot else np.nan
                ok = (np.isnan(g) and np.isnan(ref)) or abs(g - ref) <= 1e-4 * (1 + abs(ref)) * 1e-2
            if not ok and bad is None:
                bad = (z, c, g, ref)
    if bad:
        # mechanism classifiers for the two known defects (fixed in /repo; kept so that a regression is named)
        mech = 'crosstab.entry'
        if zsel is not None and len(got_rows) > 1 and got_rows == [float(x) for x in zsel if x in set(uz)] and got_rows != sorted(got_rows):
            # does the table become right when its rows are re-labelled in ascending order?
            relabel = sorted(got_rows)
            good = True
            for ri, z in enumerate(relabel):
                tot = zr.zone_total(zones, values, z, nodata)
                for c in got_cols:
                    cnt = zr.crosstab_count(zones, values, z, c, nodata)
                    ref = cnt if agg == 'count' else ((cnt / tot * 100.0) if tot else np.nan)
                    g = float(df[c].iloc[ri])
                    if not ((np.isnan(g) and np.isnan(ref)) or abs(g - ref) <= 1e-6 * (1 + abs(ref))):
                        good = False
            if good:
                mech = 'crosstab.rows_labelled_in_request_order'
        elif csel is not None and len(exp_cols) < len(uc):
            mech = 'crosstab.category_offset_skips_unselected'
        rec.violation(mech, 'crosstab(%s) zone %r category %r: got %r, contingency table says %r' % ((agg,) + bad), pay)
        return False
    rec.ok(clause, len(got_rows) * len(got_cols))
    if agg == 'percentage' and csel is None:
        for ri, z in enumerate(got_rows):
            if zr.zone_total(zones, values, z, nodata) > 0:
                s = float(sum(float(df[c].iloc[ri]) for c in got_cols))
                if abs(s - 100.0) <= 1e-3:
                    rec.ok('percentage.rows_sum_100')
                else:
                    rec.violation('crosstab.percentage_sum', 'row of zone %r sums to %r' % (z, s), pay); return False
    return True


def _sel_lists(ids):
    out = []
    for k in range(1, len(ids) + 1):
        for sub in itertools.permutations(ids, k):
            out.append(list(sub))
    return out


def check(rec, kind, idx, rng, tier):
    from xrspatial.zonal import crosstab
    import dask
    if kind in ('x2', 'exh'):
        H, W = int(rng.integers(1, 11)), int(rng.integers(1, 11))
        maxz = 6
        if kind == 'exh':
            H, W = int(rng.integers(3, 8)), int(rng.integers(3, 8)); maxz = 3 if tier == 'quick' else 4
        zkind, znf, zones = zgen.zones_raster(rng, H, W, max_zones=maxz)
        vkind, vnf, values = zgen.values_raster(rng, H, W, categorical=True)
        if kind == 'exh':
            alpha = rng.choice(np.array([1, 2, 5, 10, 20]), size=int(rng.integers(2, (3 if tier == 'quick' else 4) + 1)), replace=False)
            values = rng.choice(alpha, size=(H, W)).astype(values.dtype if values.dtype.kind != 'u' else 'int32')
        ndlabel, nodata = zgen.nodata_choice(rng, zones, values)
        if ndlabel == 'equals_zone_id':
            ndlabel, nodata = 'none', None
        uz = [u.item() for u in zr.zone_list(zones)]
        uc = [c.item() for c in zr.cats(values, nodata)]
        if not uz or not uc:
            rec.rej('no_zone_or_category'); return
        geom = gen.random_geom(rng)
        zlay = str(rng.choice(['C', 'C', 'F', 'strided', 'neg'])); vlay = str(rng.choice(['C', 'C', 'F', 'strided', 'neg']))
        za = gen.mk(gen.layout(zones, zlay), name='zones', **geom); va = gen.mk(gen.layout(values, vlay), name='values', **geom)
        base0 = dict(zones=zones, values=values, nodata=nodata, zones_kind=zkind, zones_nonfinite=znf, zones_layout=zlay, values_layout=vlay)
        if kind == 'exh':
            if len(uz) > maxz or len(uc) > 4:
                rec.rej('too_many_ids_for_exhaustive'); return
            zlists = _sel_lists(uz); clists = _sel_lists(uc)
            for zi, zsel in enumerate(zlists):
                # quick: each zone selection with a rotating category selection; thorough: full cross product
                cl = clists
                for csel in cl:
                    agg = 'count' if (len(zsel) + len(csel)) % 2 == 0 else 'percentage'
                    rec.evaluation()
                    kw = dict(zone_ids=list(zsel), cat_ids=list(csel), agg=agg)
                    if nodata is not None:
                        kw['nodata_values'] = nodata
                    out = rec.call(crosstab, za, va, **kw)
                    base = dict(base0, kwargs=kw)
                    if hasattr(out, 'exc'):
                        rec.violation('crosstab.raises', 'crosstab raised %r' % out, base); continue
                    if _judge_frame(rec, out, zones, values, zsel, csel, nodata, agg, base):
                        rec.ok('exhaustive.selections')
                        if zsel != sorted(zsel): rec.ok('restricted.zone_ids_unsorted')
                        if len(csel) < len(uc): rec.ok('restricted.cat_ids')
                        rec.nontriv(zones.tobytes(), values.tobytes(), tuple(zsel), tuple(csel), agg)
            return
        zlabel, zsel = zgen.id_selection(rng, np.array(uz))
        clabel, csel = zgen.id_selection(rng, np.array(uc), absent_pool=(77, -5))
        if zlabel == 'none_present' or clabel == 'none_present':
            rec.rej('no_requested_id_present'); return
        agg = str(rng.choice(['count', 'percentage']))
        kw = dict(agg=agg)
        if zsel is not None: kw['zone_ids'] = list(zsel)
        if csel is not None: kw['cat_ids'] = list(csel)
        if nodata is not None: kw['nodata_values'] = nodata
        if agg == 'count' and rng.random() < 0.3: kw.pop('agg')
        base = dict(base0, kwargs=kw, zone_ids_kind=zlabel, cat_ids_kind=clabel)
        rec.evaluation()
        out = rec.call(crosstab, za, va, **kw)
        if len(rec.samples) < 1:
            rec.sample(base)
        if hasattr(out, 'exc'):
            rec.violation('crosstab.raises', 'crosstab raised %r' % out, base)
        elif _judge_frame(rec, out, zones, values, zsel, csel, nodata, agg, base):
            rec.cls('zones.' + znf); rec.cls('nodata.' + ndlabel); rec.cls('agg.' + agg)
            if zlay != vlay: rec.ok('layouts_differ_between_inputs')
            if zsel is not None and zsel != sorted(zsel): rec.ok('restricted.zone_ids_unsorted')
            if csel is not None and len([c for c in uc if c in set(csel)]) < len(uc): rec.ok('restricted.cat_ids')
            if len(uz) >= 2 and len(uc) >= 2 and (zsel is not None or csel is not None):
                rec.nontriv(zones.tobytes(), values.tobytes(), repr(zsel), repr(csel), agg)
            # restriction relation against the library's own unrestricted table
            if (zsel is not None or csel is not None):
                kw0 = {k: v for k, v in kw.items() if k not in ('zone_ids', 'cat_ids')}
                full = rec.call(crosstab, za, va, **kw0)
                if not hasattr(full, 'exc'):
                    okrel = True
                    for ri, z in enumerate(out['zone'].tolist()):
                        fr = full[full['zone'] == z]
                        for c in [c for c in out.columns if c != 'zone']:
                            a, b = float(out[c].iloc[ri]), float(fr[c].iloc[0]) if len(fr) else np.nan
                            if not ((np.isnan(a) and np.isnan(b)) or abs(a - b) <= 1e-9 * (1 + abs(b))):
                                okrel = False
                    if okrel:
                        rec.ok('restriction_is_subtable')
                    else:
                        rec.violation('crosstab.restriction', 'restricted table is not the sub-table of the unrestricted one', base)
        # Dask backend, same chunking for both rasters
        if idx % 3 == 0:
            rec.evaluation()
            chunks = gen.random_chunks((H, W), rng)
            zd = gen.mk(zones, chunks=chunks, **geom); vd = gen.mk(values, chunks=chunks, **geom)
            with dask.config.set(scheduler='synchronous'):
                outd = rec.call(lambda: crosstab(zd, vd, **kw).compute())
            based = dict(base, chunks=chunks, backend='dask')
            if hasattr(outd, 'exc'):
                rec.violation('crosstab.dask_raises', 'crosstab on Dask raised %r' % outd, based)
            elif _judge_frame(rec, outd, zones, values, zsel, csel, nodata, agg, based, clause='entries.dask'):
                rec.ok('dask.2d')
        return
    # ---- 3-D values -----------------------------------------------------------
    H, W = int(rng.integers(1, 9)), int(rng.integers(1, 9))
    L = int(rng.integers(1, 5))
    zkind, znf, zones = zgen.zones_raster(rng, H, W, max_zones=4)
    vdt = str(rng.choice(['float64', 'float32', 'int32', 'int64']))
    vals = rng.integers(0, 20, size=(L, H, W)).astype(vdt)
    if vals.dtype.kind == 'f' and rng.random() < 0.5:
        vals[rng.random(vals.shape) < 0.15] = np.nan
    nodata = None if rng.random() < 0.5 else int(rng.integers(0, 20))
    labels = [str(s) for s in rng.permutation(['a', 'b', 'c', 'd'])[:L]] if rng.random() < 0.5 else list(range(10, 10 + L))
    uz = [u.item() for u in zr.zone_list(zones)]
    if not uz:
        rec.rej('no_zone_or_category'); return
    layer_last = rng.random() < 0.3
    ys = np.arange(H) * 1.0; xs = np.arange(W) * 1.0
    if rng.random() < 0.3:
        zones = np.asfortranarray(zones)
    if layer_last:
        va = xr.DataArray(np.ascontiguousarray(np.moveaxis(vals, 0, 2)) if rng.random() < 0.5 else np.moveaxis(vals, 0, 2),
                          dims=['y', 'x', 'cat'], coords={'y': ys, 'x': xs, 'cat': labels})
        lkw = dict(layer=2)
    else:
        va = xr.DataArray(vals, dims=['cat', 'y', 'x'], coords={'cat': labels, 'y': ys, 'x': xs})
        lkw = {} if rng.random() < 0.5 else dict(layer=0)
    za = xr.DataArray(zones, dims=['y', 'x'], coords={'y': ys, 'x': xs})
    agg = str(rng.choice(['count', 'mean', 'max', 'min', 'sum', 'std', 'var']))
    zlabel, zsel = zgen.id_selection(rng, np.array(uz))
    if zlabel == 'none_present':
        zsel = None
    csel = None
    if rng.random() < 0.4:
        csel = [labels[i] for i in rng.permutation(L)[:int(rng.integers(1, L + 1))]]
    kw = dict(agg=agg, **lkw)
    if zsel is not None: kw['zone_ids'] = list(zsel)
    if csel is not None: kw['cat_ids'] = list(csel)
    if nodata is not None: kw['nodata_values'] = nodata
    use_dask = (agg == 'count' and idx % 2 == 0)
    base = dict(zones=zones, values=vals, labels=labels, kwargs=kw, layer_last=layer_last, backend='dask' if use_dask else 'numpy')
    rec.evaluation()
    if use_dask:
        chunks = gen.random_chunks((H, W), rng)
        zd = za.chunk({'y': chunks[0], 'x': chunks[1]})
        vd = va.chunk({'y': gen.random_composition(H, rng), 'x': gen.random_composition(W, rng), 'cat': gen.random_composition(L, rng)})
        base['chunks'] = chunks
        with dask.config.set(scheduler='synchronous'):
            out = rec.call(lambda: crosstab(zd, vd, **kw).compute())
    else:
        out = rec.call(crosstab, za, va, **kw)
    exp_rows = uz if zsel is None else [u for u in uz if u in set(zsel)]
    exp_cols = labels if csel is None else [l for l in labels if l in set(csel)]
    empty_sel = False
    for z in exp_rows:
        for c in exp_cols:
            li = labels.index(c)
            if len(zr.zone_vector(zones, vals[li], z, nodata)) == 0:
                empty_sel = True
    if hasattr(out, 'exc'):
        if empty_sel and agg in ('max', 'min'):
            rec.rej('x3.minmax_of_empty_cell_set_raises')
        else:
            rec.violation('crosstab3d.raises', 'crosstab (3-D) raised %r' % out, base)
        return
    import pandas as pd
    pay = dict(base, got=out.to_dict('list') if isinstance(out, pd.DataFrame) else repr(out))
    if not isinstance(out, pd.DataFrame) or sorted(float(x) for x in out['zone'].tolist()) != sorted(float(x) for x in exp_rows) or \
            sorted(map(str, [c for c in out.columns if c != 'zone'])) != sorted(map(str, exp_cols)):
        rec.violation('crosstab3d.layout', '3-D crosstab rows/columns differ from the requested existing zones %s / layers %s' % (exp_rows, exp_cols), pay); return
    bad = None
    for ri, z in enumerate(out['zone'].tolist()):
        for c in exp_cols:
            li = labels.index(c)
            v = zr.zone_vector(zones, vals[li], z, nodata)
            g = float(out[c].iloc[ri])
            if len(v) == 0:
                if agg in ('count', 'sum') and g != 0:
                    bad = (z, c, g, 0.0)
                continue
            ref, tl = zr.stat_ref(v, agg)
            if not abs(g - ref) <= tl + 1e-12 * abs(ref):
                bad = (z, c, g, ref)
    if bad:
        mech = 'crosstab3d.entry'
        if zsel is not None and [float(x) for x in out['zone'].tolist()] != sorted(float(x) for x in out['zone'].tolist()):
            mech = 'crosstab.rows_labelled_in_request_order'
        rec.violation(mech, '3-D crosstab(%s) zone %r layer %r: got %r, aggregate over the valid cells is %r' % ((agg,) + bad), pay)
    else:
        rec.ok('xtab3d'); rec.cls('x3.agg.' + agg); rec.cls('x3.' + ('dask' if use_dask else 'numpy'))
        if layer_last: rec.cls('x3.layer_last')
        if len(exp_rows) >= 2 and L >= 2:
            rec.nontriv('x3', zones.tobytes(), vals.tobytes(), repr(kw))
