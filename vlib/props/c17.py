"""C17 Local operators are per-cell functions of the layers, NaN-absorbing."""
import numpy as np
import xarray as xr

from vlib import gen, tol

PID = 'C17'
RULE = ("datasets of 2..6 same-shaped layers (ties via small alphabets, NaN cells in data layers, int and float dtypes, "
        "H!=W both ways, 1xN/Nx1), random data_vars subsets/orders and ref_var, integer ref layers in 1..n, memory layout "
        "C/F/strided/negative-stride per layer; oracle = the definition applied to stack[:, i, j]; plus the cell-permutation "
        "relation (same permutation of cells in every layer permutes the output); non-trivial = distinct (function, shape, "
        "layouts, data hash) with >=2 distinct output values")
BUDGET = {'quick': 120, 'thorough': 400}
FLOORS = {'quick': {'cell_stats': 150, 'frequency.sum_is_n': 48, 'combine.ids': 50, 'rank': 48, 'position': 100,
                    'layout.non_C': 150, 'permutation_relation': 200, 'cell.has_both_infinities': 6},
          'thorough': {'cell_stats': 1500, 'combine.ids': 500, 'layout.non_C': 1500}}
ASSUMPTIONS = ['reference layers are NaN-free (the statement only specifies NaN in data layers)',
               'rank/popularity reference layers are integer typed with values in 1..n',
               'popularity is judged only by the per-cell (permutation) and NaN clauses: the statement gives no definition for it']

STATS = {'max': np.max, 'mean': np.mean, 'median': np.median, 'min': np.min, 'std': np.std, 'sum': np.sum}


def plan(tier, seed):
    n = 160 if tier == 'quick' else 12000
    return [('ds', i) for i in range(n)]


def _eqnan(a, b, rtol=0.0):
    a = np.asarray(a, dtype='float64'); b = np.asarray(b, dtype='float64')
    if a.shape != b.shape:
        return 'shape %s vs %s' % (a.shape, b.shape)
    return tol.first_diff_close(a, b, rtol) if rtol else tol.first_diff_exact(a, b)


def check(rec, kind, idx, rng, tier):
    from xrspatial import local
    H = int(rng.choice([1, 2, 3, 4, 5, 7])); W = int(rng.choice([1, 2, 3, 4, 6, 8]))
    if H == W and rng.random() < 0.7:
        W = W + int(rng.integers(1, 4))
    n = int(rng.integers(2, 7))
    alpha = int(rng.choice([2, 3, 5, 50]))
    as_int = rng.random() < 0.35
    names = ['v%d' % i for i in range(n)]
    # nearly-equal values only in all-float64 datasets: with mixed float32/float64 layers NumPy compares a float32 reference
    # with the other layers' Python floats in float32 (NEP 50), which is outside what the statement pins down
    near_equal = (not as_int) and rng.random() < 0.25
    with_inf = (not as_int) and rng.random() < 0.25
    # every layer of one narrow integer type, values up to its limits: sums and ranges across layers leave the type's range
    narrow = str(rng.choice(['uint8', 'int8', 'int16', 'uint16'])) if (as_int and rng.random() < 0.35) else None
    layers, layouts = {}, {}
    for nm in names:
        a = rng.integers(0, alpha, size=(H, W)).astype('float64')
        if not as_int and rng.random() < 0.5:
            a = a + rng.choice([0.0, 0.5, 0.25], size=(H, W))
        if near_equal:
            a = a + rng.choice([0.0, 1e-6, -1e-6, 2e-7], size=(H, W))          # nearly equal, not equal
        if not as_int and rng.random() < 0.5:
            m = rng.random((H, W)) < rng.choice([0.05, 0.2, 0.5])
            a[m] = np.nan
        if with_inf:
            # infinite cells are data, not NaN: +inf in one layer and -inf in another at the same cell must still be counted / ranked
            mi = rng.random((H, W)) < 0.3
            a[mi] = rng.choice([np.inf, -np.inf], size=int(mi.sum()))
        if narrow:
            ii = np.iinfo(narrow)
            a = rng.integers(ii.min, ii.max + 1, size=(H, W)).astype('float64') if rng.random() < 0.7 else rng.choice([ii.max, ii.max - 1, ii.min, 0, 1], size=(H, W)).astype('float64')
        dt = narrow if narrow else str(rng.choice(['int32', 'int64', 'uint8'])) if as_int else ('float64' if near_equal else str(rng.choice(['float64', 'float64', 'float32'])))
        lay = str(rng.choice(['C', 'C', 'F', 'strided', 'neg']))
        layers[nm] = gen.layout(a.astype(dt), lay)
        layouts[nm] = lay
    ys, xs = np.arange(H) * 2.0, np.arange(W) * 0.5
    def dataset(ls):
        return xr.Dataset({k: xr.DataArray(v, dims=['y', 'x'], coords={'y': ys, 'x': xs}) for k, v in ls.items()})
    # selection of variables
    k = int(rng.integers(2, n + 1)) if rng.random() < 0.6 else n
    sel = [str(s) for s in rng.permutation(names)[:k]]
    use_default = (k == n and rng.random() < 0.5)
    dv = None if use_default else sel
    used = names if use_default else sel
    stack = np.stack([np.asarray(layers[v], dtype='float64') for v in used])
    anynan = np.isnan(stack).any(axis=0)
    if narrow:
        rec.cls('layers.one_narrow_integer_type')
    if (np.isposinf(stack).any(axis=0) & np.isneginf(stack).any(axis=0)).any():
        rec.cls('cell.has_both_infinities')
    non_c = any(layouts[v] != 'C' for v in used)
    base = dict(H=H, W=W, n=n, data_vars=dv, layouts={v: layouts[v] for v in used},
                layers={v: np.asarray(layers[v]) for v in used})
    perm = rng.permutation(H * W)
    def permuted(ls):
        return {kk: np.ascontiguousarray(np.asarray(v).reshape(-1)[perm].reshape(H, W)) for kk, v in ls.items()}

    def run(fname, f, expected, extra_layers=None, rtol=0.0, **kw):
        rec.evaluation()
        ls = dict(layers)
        if extra_layers:
            ls.update(extra_layers)
        ds = dataset(ls)
        out = rec.call(f, ds, **kw)
        pay = dict(base, func=fname, kwargs={a: b for a, b in kw.items()}, expected=expected,
                   extra={k2: np.asarray(v2) for k2, v2 in (extra_layers or {}).items()})
        if hasattr(out, 'exc'):
            rec.violation(fname + '.raises', '%s raised %r' % (fname, out), pay); return None
        got = np.asarray(out.data)
        pay['got'] = got
        rec.cls('func.' + fname)
        if non_c or (extra_layers and any(not np.asarray(v).flags['C_CONTIGUOUS'] for v in extra_layers.values())):
            rec.cls('layout.non_C_case')
        d = _eqnan(got, expected, rtol)
        if len(np.unique(expected[~np.isnan(expected)])) >= 2:
            rec.nontriv(fname, H, W, tuple(sorted(pay['layouts'].items())), stack.tobytes(), repr(kw.get('func')), repr(kw.get('ref_var')))
        if len(rec.samples) < 1:
            rec.sample(pay)
        if d is not None:
            # classifier for the memory-order defect: the same call on C-contiguous copies is right
            lc = {k2: np.ascontiguousarray(v2) for k2, v2 in ls.items()}
            out_c = rec.call(f, dataset(lc), **kw)
            layout_only = (not hasattr(out_c, 'exc')) and _eqnan(np.asarray(out_c.data), expected, rtol) is None
            anyF = any(not np.asarray(v2).flags['C_CONTIGUOUS'] for v2 in ls.values())
            mech = 'local.memory_order_iteration' if (layout_only and anyF) else fname + '.value'
            rec.violation(mech, '%s: output differs from the per-cell definition at %r (layouts %s)' % (fname, d, pay['layouts']), pay)
            return None
        rec.ok(kw.pop('_clause', None) or fname)
        if non_c:
            rec.ok('layout.non_C')
        # NaN absorption
        if (np.isnan(got) >= anynan).all():
            rec.ok('nan_absorbing')
        else:
            rec.violation(fname + '.nan', '%s: non-NaN output where a data layer is NaN' % fname, pay)
        # permutation relation (per-cell dependence), judged on C-contiguous permuted copies
        if fname != 'combine':
            out_p = rec.call(f, dataset(permuted(ls)), **kw)
            if hasattr(out_p, 'exc'):
                rec.violation(fname + '.raises', '%s raised on permuted cells: %r' % (fname, out_p), pay)
            else:
                exp_p = expected.reshape(-1)[perm].reshape(H, W)
                dp = _eqnan(np.asarray(out_p.data), exp_p, rtol)
                if dp is None:
                    rec.ok('permutation_relation')
                else:
                    rec.violation(fname + '.not_per_cell', '%s: permuting the cells of every layer does not permute the output: %r' % (fname, dp), pay)
        return got

    # ---- cell_stats --------------------------------------------------
    for fn in STATS:
        with np.errstate(all='ignore'):
            exp = np.full((H, W), np.nan)
            for i in range(H):
                for j in range(W):
                    exp[i, j] = STATS[fn](stack[:, i, j])
        kw = dict(func=fn)
        if dv is not None:
            kw['data_vars'] = dv
        if fn == 'sum' and rng.random() < 0.5:
            kw.pop('func')   # default
        run('cell_stats', local.cell_stats, exp, rtol=1e-12, **kw)

    # ---- positions -----------------------------------------------------
    for fname, f, arg in (('lowest_position', local.lowest_position, np.argmin), ('highest_position', local.highest_position, np.argmax)):
        exp = np.full((H, W), np.nan)
        for i in range(H):
            for j in range(W):
                if not anynan[i, j]:
                    col = stack[:, i, j]
                    target = col.min() if arg is np.argmin else col.max()
                    exp[i, j] = [t for t in range(len(col)) if col[t] == target][0] + 1
        kw = {} if dv is None else dict(data_vars=dv)
        g = run(fname, f, exp, **kw)
        if g is not None:
            rec.ok('position')

    # ---- combine ---------------------------------------------------------
    rec.evaluation()
    ds = dataset(layers)
    kw = {} if dv is None else dict(data_vars=dv)
    out = rec.call(local.combine, ds, **kw)
    exp = np.full((H, W), np.nan); key = {}; nxt = 1; seen = {}
    for i in range(H):
        for j in range(W):
            if anynan[i, j]:
                continue
            t = tuple(stack[:, i, j].tolist())
            if t not in seen:
                seen[t] = nxt; key[nxt] = t; nxt += 1
            exp[i, j] = seen[t]
    pay = dict(base, func='combine', expected=exp, expected_key=key)
    if hasattr(out, 'exc'):
        rec.violation('combine.raises', 'combine raised %r' % out, pay)
    else:
        got = np.asarray(out.data); pay['got'] = got; pay['got_key'] = out.attrs.get('key')
        rec.cls('func.combine')
        d = _eqnan(got, exp)
        if len(seen) >= 2:
            rec.nontriv('combine', H, W, tuple(sorted(base['layouts'].items())), stack.tobytes())
        if d is not None:
            lc = {k2: np.ascontiguousarray(v2) for k2, v2 in layers.items()}
            out_c = rec.call(local.combine, dataset(lc), **kw)
            layout_only = (not hasattr(out_c, 'exc')) and _eqnan(np.asarray(out_c.data), exp) is None
            mech = 'local.memory_order_iteration' if (layout_only and non_c) else 'combine.value'
            rec.violation(mech, 'combine: ids are not first-occurrence numbering of equal tuples: %r (layouts %s)' % (d, base['layouts']), pay)
        else:
            gk = out.attrs.get('key')
            okk = isinstance(gk, dict) and len(gk) == len(key) and all(
                kk in gk and tuple(float(x) for x in gk[kk]) == tuple(float(x) for x in key[kk]) for kk in key)
            if okk:
                rec.ok('combine.ids'); rec.ok('combine.key')
                if non_c:
                    rec.ok('layout.non_C')
            else:
                rec.violation('combine.key', 'combine: attrs key %r does not map ids to their tuples %r' % (gk, key), pay)

    # ---- frequencies, rank, popularity: need a reference layer outside data_vars ----
    if len(used) >= 3 or (use_default and n >= 3):
        if use_default:
            ref = str(rng.choice(names)); data_used = [v for v in names if v != ref]; kwsel = {}
        else:
            ref = used[0]; data_used = used[1:]; kwsel = dict(data_vars=data_used)
        reflay = np.asarray(layers[ref], dtype='float64')
        extra = {}
        if np.isnan(reflay).any():
            # make the reference NaN-free (keeps its layout class)
            r2 = np.where(np.isnan(reflay), 1.0, reflay)
            extra = {ref: gen.layout(r2.astype(np.asarray(layers[ref]).dtype), layouts[ref])}
            reflay = r2
        st = np.stack([np.asarray(layers[v], dtype='float64') for v in data_used])
        an = np.isnan(st).any(axis=0)
        # temporarily describe the data layers for this group
        stack_save, anynan_save, base_save, nonc_save = stack, anynan, base, non_c
        stack, anynan = st, an
        non_c = any(layouts[v] != 'C' for v in data_used) or layouts[ref] != 'C'
        base = dict(H=H, W=W, n=n, data_vars=kwsel.get('data_vars'), ref_var=ref,
                    layouts={v: layouts[v] for v in data_used + [ref]},
                    layers={v: np.asarray(extra.get(v, layers[v])) for v in data_used + [ref]})
        res = {}
        for fname, f, op in (('lesser_frequency', local.lesser_frequency, np.greater), ('equal_frequency', local.equal_frequency, np.equal),
                             ('greater_frequency', local.greater_frequency, np.less)):
            # lesser: number of layers below the reference  <=> ref > item
            exp = op(reflay[None], st).sum(axis=0).astype('float64')
            exp[an] = np.nan
            res[fname] = run(fname, f, exp, extra_layers=extra, ref_var=ref, **kwsel)
        if all(v is not None for v in res.values()):
            tot = res['lesser_frequency'] + res['equal_frequency'] + res['greater_frequency']
            if ((tot == len(data_used)) | an).all():
                rec.ok('frequency.sum_is_n')
            else:
                rec.violation('frequency.sum', 'lesser+equal+greater != number of layers', dict(base, total=tot))
        # rank with an integer reference layer in 1..m
        m = len(data_used)
        rl = rng.integers(1, m + 1, size=(H, W)).astype(str(rng.choice(['int64', 'int32'])))
        rlay = str(rng.choice(['C', 'F', 'strided']))
        extra_r = {ref: gen.layout(rl, rlay)}
        base['layouts'][ref] = rlay; base['layers'][ref] = rl
        non_c = any(layouts[v] != 'C' for v in data_used) or rlay != 'C'
        exp = np.full((H, W), np.nan)
        for i in range(H):
            for j in range(W):
                if not an[i, j]:
                    exp[i, j] = np.sort(st[:, i, j])[int(rl[i, j]) - 1]
        run('rank', local.rank, exp, extra_layers=extra_r, ref_var=ref, **kwsel)
        # popularity: per-cell + NaN clauses only (expected := its own output on C-contiguous copies)
        lc = {k2: np.ascontiguousarray(v2) for k2, v2 in dict(layers, **extra_r).items()}
        oc = rec.call(local.popularity, dataset(lc), ref_var=ref, **kwsel)
        if not hasattr(oc, 'exc'):
            run('popularity', local.popularity, np.asarray(oc.data, dtype='float64'), extra_layers=extra_r, ref_var=ref, **kwsel)
        stack, anynan, base, non_c = stack_save, anynan_save, base_save, nonc_save
