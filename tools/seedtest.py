#!/usr/bin/env python3
"""Developer tool: confirm a seeded change and run our checks against it.

  tools/seedtest.py C17 1 [--src /tmp/seed/out] [--checks C17,C10] [--tier quick] [--no-suite]

1. fresh worktree of /repo HEAD under /tmp/seedtest/<pid>-<k>; demo.py must exit 0
2. apply patch.diff; demo.py must exit 1
3. whole existing test-suite on the patched tree (must match the baseline: only the always-fail tests fail)
4. our checks with VERIF_REPO=<patched tree>: report exit codes / VIOLATION lines
The worktree is removed afterwards.
"""
import argparse, json, os, subprocess, sys, shutil, time
ap = argparse.ArgumentParser()
ap.add_argument('pid'); ap.add_argument('k')
ap.add_argument('--src', default='/tmp/seed/out')
ap.add_argument('--checks', default=None)
ap.add_argument('--tier', default='quick')
ap.add_argument('--no-suite', action='store_true')
ap.add_argument('--suite-related', action='store_true', help='run only the test files that mention a module the patch touches')
ap.add_argument('--keep', action='store_true')
a = ap.parse_args()
src = os.path.join(a.src, a.pid, a.k)
wt = '/tmp/seedtest/%s-%s' % (a.pid, a.k)
os.makedirs('/tmp/seedtest', exist_ok=True)
subprocess.run(['git', '-C', '/repo', 'worktree', 'remove', '--force', wt], capture_output=True)
shutil.rmtree(wt, ignore_errors=True)
subprocess.run(['git', '-C', '/repo', 'worktree', 'add', '-q', '--detach', wt, 'HEAD'], check=True)
env = dict(os.environ, PYTHONPATH=wt, PYTHONDONTWRITEBYTECODE='1')
res = {'pid': a.pid, 'k': a.k}
def demo():
    r = subprocess.run(['/venv/bin/python', os.path.join(src, 'demo.py')], env=env, cwd=wt, capture_output=True, text=True, timeout=900)
    return r.returncode, (r.stdout + r.stderr)[-600:]
try:
    res['demo_clean'] = demo()[0]
    ap_ = subprocess.run(['git', '-C', wt, 'apply', os.path.join(src, 'patch.diff')], capture_output=True, text=True)
    res['apply'] = ap_.returncode
    if ap_.returncode:
        res['apply_err'] = ap_.stderr[-400:]
    rc, out = demo()
    res['demo_patched'] = rc; res['demo_out'] = out
    if not a.no_suite:
        t0 = time.time()
        sel = ['xrspatial/tests']
        if a.suite_related:
            import glob, re as _re
            mods = set(_re.findall(r'^\+\+\+ b/xrspatial/(\w+)\.py', open(os.path.join(src, 'patch.diff')).read(), _re.M))
            sel = sorted(f[len(wt) + 1:] for f in glob.glob(wt + '/xrspatial/tests/test_*.py')
                         if any(_re.search(r'\b%s\b' % m, open(f).read()) for m in mods))
            res['suite_selection'] = sel
        r = subprocess.run(['/venv/bin/python', '-m', 'pytest', '-q', '-p', 'no:cacheprovider', '-n', '3' if a.suite_related else '6', '--timeout=900'] + sel,
                           env=env, cwd=wt, capture_output=True, text=True)
        fails = sorted(l.split(' ')[1] for l in r.stdout.splitlines() if l.startswith('FAILED') or l.startswith('ERROR'))
        res['suite_failures'] = fails; res['suite_tail'] = r.stdout.strip().splitlines()[-1:]; res['suite_s'] = round(time.time() - t0)
    checks = (a.checks or a.pid).split(',')
    res['checks'] = {}
    for c in checks:
        e2 = dict(os.environ, VERIF_REPO=wt, VERIF_EVIDENCE_DIR='/tmp/seedtest/evidence')
        r = subprocess.run(['python3', '/verif/run.py', c, '--tier', a.tier], env=e2, cwd='/verif', capture_output=True, text=True)
        lines = [l for l in r.stdout.splitlines() if l.startswith(('VIOLATION', 'KNOWN', 'INCONCLUSIVE', 'VERDICT', '  mechanism'))]
        res['checks'][c] = {'rc': r.returncode, 'lines': lines[:12]}
finally:
    if not a.keep:
        subprocess.run(['git', '-C', '/repo', 'worktree', 'remove', '--force', wt], capture_output=True)
        shutil.rmtree(wt, ignore_errors=True)
print(json.dumps(res, indent=1))
