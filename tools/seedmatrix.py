#!/usr/bin/env python3
"""Developer tool: re-run the quick tier of each kept seeded change's checks against the patched tree; updates
seeded/<id>/meta.json (detected_by) and prints a markdown table.  tools/seedmatrix.py [ids...] [--extra C08-1=C10,C08-2=C01]"""
import json, os, subprocess, shutil, sys, glob
EXTRA = {'C08-1': ['C10'], 'C08-2': ['C01'], 'C02-2': ['C04'], 'C02-3': ['C03'], 'C03-3': ['C04'], 'C04-1': ['C02']}
ids = [a for a in sys.argv[1:] if not a.startswith('--')] or sorted(os.path.basename(p) for p in glob.glob('/verif/seeded/*-*'))
rows = []
for sid in ids:
    d = os.path.join('/verif/seeded', sid)
    meta = json.load(open(os.path.join(d, 'meta.json')))
    pid = meta['breaks_property']
    checks = [pid] + [c for c in EXTRA.get(sid, []) if c != pid] + [c for c in meta.get('also_check', []) if c != pid]
    wt = '/tmp/seedtest/matrix-%s' % sid
    subprocess.run(['git', '-C', '/repo', 'worktree', 'remove', '--force', wt], capture_output=True); shutil.rmtree(wt, ignore_errors=True)
    subprocess.run(['git', '-C', '/repo', 'worktree', 'add', '-q', '--detach', wt, 'HEAD'], check=True)
    try:
        ap = subprocess.run(['git', '-C', wt, 'apply', os.path.join(d, 'patch.diff')], capture_output=True, text=True)
        if ap.returncode:
            rows.append((sid, pid, 'PATCH DOES NOT APPLY', '')); continue
        det = {}
        for c in checks:
            e2 = dict(os.environ, VERIF_REPO=wt, VERIF_EVIDENCE_DIR='/tmp/seedtest/evidence')
            r = subprocess.run(['python3', '/verif/run.py', c, '--tier', 'quick'], env=e2, cwd='/verif', capture_output=True, text=True)
            lines = [l for l in r.stdout.splitlines() if l.startswith(('VIOLATION', '  mechanism', 'INCONCLUSIVE', 'VERDICT'))]
            det[c] = {'exit': r.returncode, 'lines': lines[:6]}
        meta['detected_by'] = det
        json.dump(meta, open(os.path.join(d, 'meta.json'), 'w'), indent=1)
        mech = []
        for c, v in det.items():
            ms = [l.split('mechanism=')[1].split(' ')[0] for l in v['lines'] if 'mechanism=' in l][:2]
            mech.append('%s: %s' % (c, 'exit %d %s' % (v['exit'], ', '.join(ms)) if v['exit'] == 1 else 'exit %d (not caught)' % v['exit']))
        rows.append((sid, pid, '; '.join(mech), meta.get('note', '')))
    finally:
        subprocess.run(['git', '-C', '/repo', 'worktree', 'remove', '--force', wt], capture_output=True); shutil.rmtree(wt, ignore_errors=True)
    print('done', sid, rows[-1][2], flush=True)
print('\n| seeded change | breaks | quick-tier result of the checks run against it | note |\n|---|---|---|---|')
for sid, pid, m, note in rows:
    what = ''
    try:
        what = open(os.path.join('/verif/seeded', sid, 'notes.md')).read().strip().splitlines()
        what = next((l.strip('# ').strip() for l in what if l.strip()), '')[:110]
    except Exception:
        pass
    print('| %s – %s | %s | %s | %s |' % (sid, what.replace('|', '/'), pid, m.replace('|', '/'), note.replace('|', '/')))
