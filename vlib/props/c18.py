"""C18 trim and crop return the minimal window, cells and coordinates intact."""
import itertools

import numpy as np
import xarray as xr

from vlib import gen, tol

PID = 'C18'
RULE = ("raster = exclusion/other-zone background + a bounding box whose four sides each hold a kept cell; the box "
        "touches every subset of the four raster borders (16 subsets enumerated per case group); shapes 1xN, Nx1 .. 10x10; "
        "int and float dtypes; exclusion sets: default, (nan,), [nan,0.], [0], (0,1), lists and tuples; "
        "non-trivial = distinct (shape, box, dtype, exclusion set, data hash) where the window is a strict sub-window")
BUDGET = {'quick': 120, 'thorough': 700}
FLOORS = {'quick': {'trim.window': 232, 'crop.window': 245, 'trim.nan_excluded': 50, 'border_subsets_16': 1},
          'thorough': {'trim.window': 3000, 'crop.window': 3000}}
EXHAUSTIVE = {'quick': ['all 16 subsets of touched borders for each generated (shape, exclusion set) group'],
              'thorough': ['all 16 subsets of touched borders for each generated (shape, exclusion set) group']}
ASSUMPTIONS = ['domain: at least one kept cell (an empty window is not unique; such cases are counted as rejected)']

EXCL = [('default', None), ('nan_tuple', (np.nan,)), ('nan_list', [np.nan]), ('nan_zero', [np.nan, 0.0]),
        ('zero_list', [0]), ('zero_tuple', (0,)), ('zero_one', (0, 1)), ('two_float', [2.0]), ('neg', (-1.0, 0.0))]


def plan(tier, seed):
    n = 40 if tier == 'quick' else 1200
    return [('trim', i) for i in range(n)] + [('crop', i) for i in range(n)]


def _boxes(H, W, rng):
    """One bounding box per subset of touched borders (where the shape allows it)."""
    out = []
    for tt, tb, tl, tr in itertools.product([0, 1], repeat=4):
        # rows
        if tt and tb:
            t, b = 0, H - 1
        elif tt:
            if H < 2: continue
            t, b = 0, int(rng.integers(0, H - 1))
        elif tb:
            if H < 2: continue
            t, b = int(rng.integers(1, H)), H - 1
        else:
            if H < 3: continue
            t = int(rng.integers(1, H - 1)); b = int(rng.integers(t, H - 1))
        if tl and tr:
            l, r = 0, W - 1
        elif tl:
            if W < 2: continue
            l, r = 0, int(rng.integers(0, W - 1))
        elif tr:
            if W < 2: continue
            l, r = int(rng.integers(1, W)), W - 1
        else:
            if W < 3: continue
            l = int(rng.integers(1, W - 1)); r = int(rng.integers(l, W - 1))
        out.append(((tt, tb, tl, tr), (t, b, l, r)))
    return out


def _compare_window(rec, what, out, src, t, b, l, r, name, pay):
    exp = src.isel({src.dims[0]: slice(t, b + 1), src.dims[1]: slice(l, r + 1)})
    if not isinstance(out, xr.DataArray):
        rec.violation(what + '.type', '%s returned %s' % (what, type(out)), pay); return False
    if out.shape != exp.shape:
        rec.violation(what + '.window', '%s window shape %s, minimal window is rows %d..%d cols %d..%d (shape %s)'
                      % (what, out.shape, t, b, l, r, exp.shape), pay); return False
    d = tol.first_diff_exact(out.values, exp.values)
    if d is not None:
        rec.violation(what + '.window', '%s window has the right shape but wrong cells: first diff %r' % (what, d), pay); return False
    rec.ok(what + '.window')
    good = True
    if tuple(out.dims) != tuple(exp.dims):
        rec.violation(what + '.dims', 'dims %s vs %s' % (out.dims, exp.dims), pay); good = False
    for dname in exp.coords:
        if dname not in out.coords or not np.array_equal(np.asarray(out[dname].values), np.asarray(exp[dname].values)):
            rec.violation(what + '.coords', 'coordinate %s of the window differs from the original at the same positions' % dname, pay)
            good = False
    if dict(out.attrs) != dict(src.attrs):
        rec.violation(what + '.attrs', 'attrs %r vs %r' % (out.attrs, src.attrs), pay); good = False
    if out.name != name:
        rec.violation(what + '.name', 'name %r expected %r' % (out.name, name), pay); good = False
    if good:
        rec.ok(what + '.coords_attrs')
    return good


def check(rec, kind, idx, rng, tier):
    from xrspatial.zonal import trim, crop
    H = int(rng.choice([1, 1, 2, 3, 4, 5, 6, 8, 10])); W = int(rng.choice([1, 2, 3, 4, 5, 7, 10]))
    if idx % 5 == 0:
        H, W = int(rng.integers(3, 10)), int(rng.integers(3, 10))   # all 16 subsets possible
    boxes = _boxes(H, W, rng)
    if len(boxes) == 16:
        rec.ok('border_subsets_16')
    geom = gen.random_geom(rng)
    if idx % 8 == 3 and boxes:
        _bigint_cases(rec, rng, boxes, H, W, geom)
    if kind == 'trim':
        ename, excl = EXCL[int(rng.integers(0, len(EXCL)))]
        dtype = str(rng.choice(['float64', 'float32', 'int32', 'int64', 'uint8', 'int16']))
        has_nan = ename in ('default', 'nan_tuple', 'nan_list', 'nan_zero')
        if has_nan:
            dtype = str(rng.choice(['float64', 'float32']))
        eff = [np.nan] if excl is None else list(excl)
        for subset, (t, b, l, r) in boxes:
            rec.evaluation()
            bg = rng.choice(np.array(eff, dtype='float64'), size=(H, W))
            a = bg.copy()
            inner = rng.integers(3, 9, size=(b - t + 1, r - l + 1)).astype('float64')
            # inside the box: mix of kept and excluded cells, each side of the box gets a kept cell
            mask = rng.random(inner.shape) < 0.5
            inner[mask] = rng.choice(np.array(eff, dtype='float64'), size=inner.shape)[mask]
            box = inner
            for side in range(4):
                if side == 0: i, j = 0, int(rng.integers(0, box.shape[1]))
                elif side == 1: i, j = box.shape[0] - 1, int(rng.integers(0, box.shape[1]))
                elif side == 2: i, j = int(rng.integers(0, box.shape[0])), 0
                else: i, j = int(rng.integers(0, box.shape[0])), box.shape[1] - 1
                box[i, j] = float(rng.integers(3, 9))
            a[t:b + 1, l:r + 1] = box
            if np.dtype(dtype).kind in 'iu':
                if np.dtype(dtype).kind == 'u' and (a < 0).any():
                    a = np.abs(a)
                    if ename == 'neg':
                        continue
            data = a.astype(dtype)
            if np.dtype(dtype).kind == 'f' and has_nan and rng.random() < 0.3:
                # +-inf cells are kept cells when only NaN is excluded
                ii = int(rng.integers(0, H)); jj = int(rng.integers(0, W)); data[ii, jj] = float(rng.choice([np.inf, -np.inf]))
            # oracle recomputed from the data actually passed (not from the construction)
            ex = np.array(eff, dtype='float64')
            df = data.astype('float64')
            excluded = np.isin(df, ex[~np.isnan(ex)]) | (np.isnan(df) & np.isnan(ex).any())
            kept = ~excluded
            if not kept.any():
                rec.rej('trim.no_kept_cell'); continue
            rr = np.where(kept.any(axis=1))[0]; cc = np.where(kept.any(axis=0))[0]
            et, eb, el, er = int(rr[0]), int(rr[-1]), int(cc[0]), int(cc[-1])
            attrs = {'res': (geom['cx'], geom['cy']), 'nested': {'a': [1, 2]}, 'units': 'km'}
            src = gen.mk(gen.rand_layout(data, rng), attrs=attrs, name='src', extra=bool(rng.random() < 0.3), **geom)
            nm = str(rng.choice(['trim', 'custom']))
            kw = {} if nm == 'trim' else {'name': nm}
            if excl is None:
                out = rec.call(trim, src, **kw)
            else:
                out = rec.call(trim, src, excl if rng.random() < 0.5 else type(excl)(excl), **kw)
            pay = dict(func='trim', data=data, excludes=ename, excl_values=eff, expected_window=[et, eb, el, er],
                       out_shape=getattr(out, 'shape', None), geom=geom)
            rec.cls('trim.subset.%d%d%d%d' % subset)
            rec.cls('trim.excl.' + ename)
            rec.cls('trim.dtype.' + dtype)
            if (et, eb, el, er) != (0, H - 1, 0, W - 1):
                rec.nontriv('trim', H, W, et, eb, el, er, dtype, ename, data.tobytes())
            if idx == 0:
                rec.sample(pay)
            if hasattr(out, 'exc'):
                rec.violation('trim.raises', 'trim raised %r' % out, pay); continue
            nan_needed = bool(np.isnan(ex).any() and np.isnan(df).any())
            # mechanism classifier for the known NaN-matching defect: the observed window is what results
            # when NaN cells are treated as kept
            if _compare_window_pre(rec, out, src, et, eb, el, er, nan_needed, df, ex, pay):
                continue
            if _compare_window(rec, 'trim', out, src, et, eb, el, er, nm, pay) and nan_needed:
                rec.ok('trim.nan_excluded')
    else:
        dtype = str(rng.choice(['int32', 'int64', 'float64', 'float32', 'uint8']))
        ids_pool = [1, 2, 3, 5, 7]
        k = int(rng.integers(1, 4))
        ids = [int(x) for x in rng.choice(ids_pool, size=k, replace=False)]
        others = [x for x in [0, 4, 6, 8, 9] ]
        for subset, (t, b, l, r) in boxes:
            rec.evaluation()
            z = rng.choice(others, size=(H, W)).astype('float64')
            box = rng.choice(others + ids, size=(b - t + 1, r - l + 1)).astype('float64')
            for side in range(4):
                if side == 0: i, j = 0, int(rng.integers(0, box.shape[1]))
                elif side == 1: i, j = box.shape[0] - 1, int(rng.integers(0, box.shape[1]))
                elif side == 2: i, j = int(rng.integers(0, box.shape[0])), 0
                else: i, j = int(rng.integers(0, box.shape[0])), box.shape[1] - 1
                box[i, j] = float(rng.choice(ids))
            z[t:b + 1, l:r + 1] = box
            if dtype.startswith('float') and rng.random() < 0.3:
                m = rng.random(z.shape) < 0.15
                m &= ~np.isin(z, ids)
                z[m] = np.nan
            zones = z.astype(dtype)
            sel = np.isin(zones.astype('float64'), np.array(ids, dtype='float64'))
            if not sel.any():
                rec.rej('crop.no_selected_cell'); continue
            rr = np.where(sel.any(axis=1))[0]; cc = np.where(sel.any(axis=0))[0]
            et, eb, el, er = int(rr[0]), int(rr[-1]), int(cc[0]), int(cc[-1])
            vals = gen.values(rng, (H, W), str(rng.choice(['uniform', 'int', 'smallint'])), str(rng.choice(['float64', 'int32', 'float32'])))
            if vals.dtype.kind == 'f' and rng.random() < 0.3:
                vals = gen.sprinkle(vals, rng, 0.2, where='random')
            attrs = {'res': (geom['cx'], geom['cy']), 'nested': {'a': [1, 2]}}
            vsrc = gen.mk(gen.rand_layout(vals, rng), attrs=attrs, name='values', extra=bool(rng.random() < 0.3), **geom)
            zsrc = gen.mk(gen.rand_layout(zones, rng), attrs={'z': 1}, name='zones', **geom)
            if rng.random() < 0.3:
                # same grid, coordinates computed another way (differ in the last bit): crop is positional
                zsrc = zsrc.assign_coords(y=np.nextafter(zsrc['y'].values, np.inf), x=np.nextafter(zsrc['x'].values, -np.inf)); rec.cls('crop.coords_differ_by_one_ulp')
            zid = tuple(ids) if rng.random() < 0.5 else list(ids)
            if rng.random() < 0.3:
                zid = type(zid)(float(x) for x in ids)
            nm = str(rng.choice(['crop', 'mycrop']))
            kw = {} if nm == 'crop' else {'name': nm}
            out = rec.call(crop, zsrc, vsrc, zid, **kw)
            pay = dict(func='crop', zones=zones, values=vals, zones_ids=zid, expected_window=[et, eb, el, er],
                       out_shape=getattr(out, 'shape', None), geom=geom)
            rec.cls('crop.subset.%d%d%d%d' % subset)
            rec.cls('crop.dtype.' + dtype)
            if (et, eb, el, er) != (0, H - 1, 0, W - 1):
                rec.nontriv('crop', H, W, et, eb, el, er, dtype, tuple(ids), zones.tobytes())
            if idx == 0:
                rec.sample(pay)
            if hasattr(out, 'exc'):
                rec.violation('crop.raises', 'crop raised %r' % out, pay); continue
            _compare_window(rec, 'crop', out, vsrc, et, eb, el, er, nm, pay)


def _bigint_cases(rec, rng, boxes, H, W, geom):
    """int64 ids above 2**53 that differ by one: exact as integers, equal as float64."""
    from xrspatial.zonal import trim, crop
    big = 2 ** 53
    for subset, (t, b, l, r) in boxes[:6]:
        rec.evaluation()
        data = np.full((H, W), big, dtype='int64')
        box = np.where(rng.random((b - t + 1, r - l + 1)) < 0.5, big + 1, big).astype('int64')
        box[0, int(rng.integers(0, box.shape[1]))] = big + 1; box[-1, int(rng.integers(0, box.shape[1]))] = big + 1
        box[int(rng.integers(0, box.shape[0])), 0] = big + 1; box[int(rng.integers(0, box.shape[0])), -1] = big + 1
        data[t:b + 1, l:r + 1] = box
        kept = data != big
        rr = np.where(kept.any(axis=1))[0]; cc = np.where(kept.any(axis=0))[0]
        et, eb, el, er = int(rr[0]), int(rr[-1]), int(cc[0]), int(cc[-1])
        src = gen.mk(data, attrs={'k': 1}, name='src', **geom)
        out = rec.call(trim, src, [big])
        pay = dict(func='trim', data=data, excludes=[big], expected_window=[et, eb, el, er], note='int64 ids above 2**53')
        if hasattr(out, 'exc'):
            rec.violation('trim.raises', 'trim raised %r' % out, pay)
        elif _compare_window(rec, 'trim', out, src, et, eb, el, er, 'trim', pay):
            rec.ok('int64_ids_above_2^53')
        # crop: zones hold big / big+1, select big+1
        rec.evaluation()
        vals = rng.integers(0, 9, (H, W)).astype('float64')
        zsrc = gen.mk(data, name='zones', **geom); vsrc = gen.mk(vals, attrs={'k': 1}, name='values', **geom)
        out = rec.call(crop, zsrc, vsrc, (big + 1,))
        pay = dict(func='crop', zones=data, zones_ids=(big + 1,), expected_window=[et, eb, el, er], note='int64 ids above 2**53')
        if hasattr(out, 'exc'):
            rec.violation('crop.raises', 'crop raised %r' % out, pay)
        elif _compare_window(rec, 'crop', out, vsrc, et, eb, el, er, 'crop', pay):
            rec.ok('int64_ids_above_2^53')


def _compare_window_pre(rec, out, src, et, eb, el, er, nan_needed, df, ex, pay):
    """Known-defect classifier (trim cannot match NaN): returns True if the case was consumed.

    The mechanism is recognised only when (a) NaN is in the exclusion set and the raster holds NaN, (b) the
    window is wrong, and (c) the observed window is exactly the minimal window computed with NaN cells
    treated as kept (so any *other* wrong window is still reported as trim.window).
    """
    if not nan_needed or not isinstance(out, xr.DataArray):
        return False
    exp_shape = (eb - et + 1, er - el + 1)
    if out.shape == exp_shape:
        return False
    kept2 = ~np.isin(df, ex[~np.isnan(ex)])
    rr = np.where(kept2.any(axis=1))[0]; cc = np.where(kept2.any(axis=0))[0]
    if len(rr) and out.shape == (int(rr[-1] - rr[0] + 1), int(cc[-1] - cc[0] + 1)):
        w = src.isel({src.dims[0]: slice(int(rr[0]), int(rr[-1]) + 1), src.dims[1]: slice(int(cc[0]), int(cc[-1]) + 1)})
        if tol.first_diff_exact(out.values, w.values) is None:
            rec.violation('trim.nan_never_matches', 'trim with NaN in the exclusion set kept NaN-only border rows/cols: window %s, '
                          'minimal window shape %s' % (out.shape, exp_shape), pay)
            return True
    return False
