"""C10 Analysis functions never modify their inputs and keep the raster's identity."""
import copy

import numpy as np
import xarray as xr

from vlib import gen, tol

PID = 'C10'
RULE = ("every public raster function (41 entry points) x backend {numpy, dask} x dtype {int8..uint64, float32, float64} x memory "
        "layout {C, Fortran, non-contiguous strided view, negative stride, read-only} x call sequences of length 1-5 on the same "
        "objects; deep snapshot of every argument (bytes, dtype, dims, every coordinate incl. scalar ones, deep-copied nested attrs, "
        "name) before vs after each call; np.shares_memory + write probe on the output; identity of the output (shape, dims, "
        "coordinates, attrs, backend) for raster-in/raster-out functions; non-trivial = distinct (function, backend, dtype, layout) "
        "combinations whose call returned a result")
BUDGET = {'quick': 300, 'thorough': 900}
MODES = {'quick': [('J', 8), ('I', 8)], 'thorough': [('J', 8), ('I', 8)]}
FLOORS = {'quick': {'inputs_unmodified': 2356, 'no_shared_writable_memory': 1500, 'identity_kept': 1200, 'layout.F': 300, 'layout.strided': 300,
                    'layout.readonly': 300, 'backend.dask': 447, 'sequence_len>=3': 72, 'scalar_coords_kept': 250, 'funcs_covered': 1},
          'thorough': {'inputs_unmodified': 20000}}
ASSUMPTIONS = ['documented exceptions: zonal.apply (updates values by contract, not driven), trim/crop return views, generators/focal_stats/true_color/'
               'polygonize/local.*/tables define their own shape (only the no-mutation and no-shared-writable-memory clauses apply), viewshed may '
               'widen the dtype (values compared numerically)',
               'changes of the chunk structure of a Dask input (validate_arrays, proximity single-block path assign .data) are recorded, not judged: '
               'values, coordinates and attributes are what the property names',
               'a call that raises for reasons other than writing to a read-only input is outside this property (counted as rejected)']

INT_DT = ['int8', 'uint8', 'int16', 'uint16', 'int32', 'uint32', 'int64', 'uint64']
ALL_DT = INT_DT + ['float32', 'float64']
LAYOUTS = ['C', 'F', 'strided', 'neg', 'readonly']


def _funcs():
    import xrspatial
    from xrspatial import focal, convolution, classify, multispectral as ms, zonal, local
    from xrspatial.experimental.polygonize import polygonize
    from xrspatial.analytics import summarize_terrain
    k3 = np.array([[0., 1, 0], [1, 1, 1], [0, 1, 1]])
    F = {}
    # name: (nargs, callable(args, aux) -> result, identity kind, dask ok)
    for nm in ('slope', 'aspect', 'curvature', 'hillshade'):
        F[nm] = (1, (lambda f: lambda a, x: f(a[0]))(getattr(xrspatial, nm)), 'full', True)
    F['focal.mean'] = (1, lambda a, x: focal.mean(a[0], passes=x['passes']), 'full', True)
    F['focal.apply'] = (1, lambda a, x: focal.apply(a[0], k3), 'full', True)
    F['convolution_2d'] = (1, lambda a, x: convolution.convolution_2d(a[0], k3), 'full', True)
    F['hotspots'] = (1, lambda a, x: focal.hotspots(a[0], k3), 'attrs+unit', True)
    F['focal_stats'] = (1, lambda a, x: focal.focal_stats(a[0], k3, ['mean', 'sum']), 'none', True)
    F['binary'] = (1, lambda a, x: classify.binary(a[0], [1, 2]), 'full', True)
    F['reclassify'] = (1, lambda a, x: classify.reclassify(a[0], bins=[2, 5, 100], new_values=[1, 2, 3]), 'full', True)
    F['quantile'] = (1, lambda a, x: classify.quantile(a[0], k=3), 'full', True)
    F['equal_interval'] = (1, lambda a, x: classify.equal_interval(a[0], k=3), 'full', True)
    F['natural_breaks'] = (1, lambda a, x: classify.natural_breaks(a[0], k=3), 'full', False)
    for nm, n in (('arvi', 3), ('evi', 3), ('gci', 2), ('nbr', 2), ('nbr2', 2), ('ndvi', 2), ('ndmi', 2), ('savi', 2), ('sipi', 3), ('ebbi', 3)):
        F[nm] = (n, (lambda f: lambda a, x: f(*a))(getattr(ms, nm)), 'full', True)
    F['true_color'] = (3, lambda a, x: ms.true_color(*a), 'none', True)
    for nm in ('proximity', 'allocation', 'direction'):
        F[nm] = (1, (lambda f: lambda a, x: f(a[0], max_distance=(x['maxd'] if x['metric'] == 'EUCLIDEAN' else np.inf), distance_metric=x['metric']))(getattr(xrspatial, nm)), 'full', True)
    F['a_star_search'] = (1, lambda a, x: xrspatial.a_star_search(a[0], x['start'], x['goal'], barriers=[0], snap_start=True, snap_goal=True), 'full', False)
    F['viewshed'] = (1, lambda a, x: xrspatial.viewshed(a[0], x=x['vx'], y=x['vy'], observer_elev=2), 'full', False)
    F['regions'] = (1, lambda a, x: zonal.regions(a[0], neighborhood=x['nb']), 'full', False)
    F['zonal.stats'] = (2, lambda a, x: zonal.stats(a[0], a[1]), 'none', True)
    F['zonal.stats.raster'] = (2, lambda a, x: zonal.stats(a[0], a[1], return_type='xarray.DataArray'), 'none', False)
    F['zonal.crosstab'] = (2, lambda a, x: zonal.crosstab(a[0], a[1]), 'none', True)
    F['zonal.trim'] = (1, lambda a, x: zonal.trim(a[0], values=(0,)), 'view', False)
    F['zonal.crop'] = (2, lambda a, x: zonal.crop(a[0], a[1], zones_ids=(1, 2)), 'view', False)
    F['polygonize'] = (1, lambda a, x: polygonize(a[0]), 'none', False)
    F['perlin'] = (1, lambda a, x: xrspatial.perlin(a[0], seed=x['seed']), 'none', True)
    F['generate_terrain'] = (1, lambda a, x: xrspatial.generate_terrain(a[0], x_range=(0, 100), y_range=(0, 50), seed=x['seed']), 'none', True)
    F['summarize_terrain'] = (1, lambda a, x: summarize_terrain(a[0]), 'none', True)
    for nm in ('cell_stats', 'combine', 'lowest_position', 'highest_position'):
        F['local.' + nm] = (3, (lambda f: lambda a, x: f(xr.Dataset({'a': a[0], 'b': a[1], 'c': a[2]})))(getattr(local, nm)), 'none', False)
    for nm in ('lesser_frequency', 'equal_frequency', 'greater_frequency', 'rank', 'popularity'):
        F['local.' + nm] = (3, (lambda f: lambda a, x: f(xr.Dataset({'a': a[0], 'b': a[1], 'ref': a[2]}), 'ref'))(getattr(local, nm)), 'none', False)
    return F


_F = {}


def plan(tier, seed):
    names = list(_names())
    reps = 14 if tier == 'quick' else 100
    out = []
    for r in range(reps):
        for nm in names:
            out.append(('single', '%s,%d' % (nm, r)))
    out += [('seq', i) for i in range(240 if tier == 'quick' else 2000)]
    return out


def shard_filter(descs, shard, nshards, mode):
    # compiled mode pays ~1 s of JIT per (function, dtype); interpreted mode runs the same wrappers and kernel source under
    # CPython, which is what decides aliasing/mutation at the Python level. Compiled workers take every 4th case.
    sel = [d for i, d in enumerate(descs) if (i % 8 == 0) == (mode == 'J')]
    return [d for i, d in enumerate(sel) if i % nshards == shard]


def _names():
    return ['slope', 'aspect', 'curvature', 'hillshade', 'focal.mean', 'focal.apply', 'convolution_2d', 'hotspots', 'focal_stats', 'binary', 'reclassify',
            'quantile', 'equal_interval', 'natural_breaks', 'arvi', 'evi', 'gci', 'nbr', 'nbr2', 'ndvi', 'ndmi', 'savi', 'sipi', 'ebbi', 'true_color',
            'proximity', 'allocation', 'direction', 'a_star_search', 'viewshed', 'regions', 'zonal.stats', 'zonal.stats.raster', 'zonal.crosstab',
            'zonal.trim', 'zonal.crop', 'polygonize', 'perlin', 'generate_terrain', 'summarize_terrain', 'local.cell_stats', 'local.combine',
            'local.lowest_position', 'local.highest_position', 'local.lesser_frequency', 'local.equal_frequency', 'local.greater_frequency',
            'local.rank', 'local.popularity']


def canon(o):
    """type-sensitive canonical form of attrs (a list is not a tuple; arrays by dtype and content)"""
    if isinstance(o, dict):
        return ('dict', tuple(sorted((str(k), canon(v)) for k, v in o.items())))
    if isinstance(o, (list, tuple)):
        return (type(o).__name__, tuple(canon(v) for v in o))
    if isinstance(o, np.ndarray):
        return ('ndarray', str(o.dtype), o.shape, tuple(o.ravel().tolist()))
    return (type(o).__name__, repr(o))


class Snap:
    def __init__(self, da_):
        self.dims = tuple(da_.dims); self.name = da_.name
        d = da_.data
        self.is_dask = not isinstance(d, np.ndarray)
        arr = np.asarray(d.compute() if self.is_dask else d)
        self.dtype = arr.dtype; self.shape = arr.shape
        self.bytes = np.ascontiguousarray(arr).tobytes()
        self.coords = {k: (np.array(v.values, copy=True), tuple(v.dims)) for k, v in da_.coords.items()}
        self.attrs = copy.deepcopy(dict(da_.attrs)); self.attrs_canon = canon(self.attrs)
        self.chunks = getattr(d, 'chunks', None)

    def diff(self, da_, allow_widen=False):
        d = da_.data
        arr = np.asarray(d.compute() if not isinstance(d, np.ndarray) else d)
        if tuple(da_.dims) != self.dims: return 'dims changed %s -> %s' % (self.dims, da_.dims)
        if da_.name != self.name: return 'name changed %r -> %r' % (self.name, da_.name)
        if arr.shape != self.shape: return 'shape changed'
        if arr.dtype != self.dtype:
            if not allow_widen: return 'dtype changed %s -> %s' % (self.dtype, arr.dtype)
            old = np.frombuffer(self.bytes, dtype=self.dtype).reshape(self.shape)
            if tol.first_diff_exact(arr.astype('float64'), old.astype('float64')) is not None: return 'values changed (with dtype widening)'
        elif np.ascontiguousarray(arr).tobytes() != self.bytes:
            old = np.frombuffer(self.bytes, dtype=self.dtype).reshape(self.shape)
            return 'values changed: first difference %r' % (tol.first_diff_exact(arr, old),)
        if set(da_.coords) != set(self.coords): return 'coordinates changed %s -> %s' % (sorted(self.coords), sorted(da_.coords))
        for k, (v, dm) in self.coords.items():
            if not np.array_equal(np.asarray(da_.coords[k].values), v) or tuple(da_.coords[k].dims) != dm: return 'coordinate %s changed' % k
        if canon(dict(da_.attrs)) != self.attrs_canon: return 'attrs changed %r -> %r' % (self.attrs, dict(da_.attrs))
        return None


def _make_args(rng, fname, nargs, dtype, layout, dask, H, W):
    """Build argument rasters fit for the function; every raster shares coords (with scalar coords) and nested attrs."""
    geom = gen.random_geom(rng)
    if fname in ('proximity', 'allocation', 'direction') and dask:
        geom['xdesc'] = False
    attrs = {'res': (geom['cx'], geom['cy']), 'nested': {'list': [1, 2, {'deep': 'x'}]}, 'Description': 'terrain'}
    rk = rng.random()
    if rk < 0.4:
        del attrs['res']              # cell size then comes from the coordinates
    elif rk < 0.55:
        attrs['res'] = [geom['cx'], geom['cy']]          # as a list (what a JSON / zarr round trip gives)
    elif rk < 0.7:
        attrs['res'] = np.array([geom['cx'], geom['cy']])
    args = []
    for i in range(nargs):
        a = rng.integers(0, 6, (H, W)).astype('float64')
        if fname in ('zonal.stats', 'zonal.stats.raster', 'zonal.crosstab', 'zonal.crop') and i == 0:
            a = rng.integers(0, 4, (H, W)).astype('float64')
        if fname.startswith('local.') and i == 2 and fname.split('.')[1] in ('rank', 'popularity'):
            a = rng.integers(1, 3, (H, W)).astype('float64')
        if fname in ('slope', 'aspect', 'curvature', 'hillshade', 'viewshed', 'summarize_terrain', 'hotspots'):
            a = a * 7 + rng.integers(0, 3, (H, W))
        dt = dtype
        if fname.startswith('local.') and i == 2 and np.dtype(dt).kind == 'f' and fname.split('.')[1] in ('rank', 'popularity'):
            dt = 'int64'
        if fname in ('perlin', 'generate_terrain'):
            a = np.zeros((H, W))
        if fname == 'viewshed' and np.dtype(dt).kind in 'iu' and np.dtype(dt).itemsize >= 4 and rng.random() < 0.5:
            a = a + (2 ** 24 + 1)                   # values a float32 cannot hold: 'may widen the dtype without changing a value'
        arr = a.astype(dt)
        if np.dtype(dt).kind == 'f' and rng.random() < 0.35 and fname not in ('perlin', 'generate_terrain', 'viewshed', 'a_star_search', 'polygonize') and not fname.startswith('local.'):
            arr[rng.random((H, W)) < 0.1] = np.nan
            if rng.random() < 0.6:
                arr[rng.random((H, W)) < 0.08] = np.inf; arr[rng.random((H, W)) < 0.04] = -np.inf
        arr = gen.layout(arr, layout)
        chunks = None
        if dask:
            for _t in range(30):
                chunks = gen.random_chunks((H, W), rng)
                if len(chunks[0]) * len(chunks[1]) <= 6:      # C10 is not about chunking; many tiny blocks only cost time
                    break
            else:
                chunks = ((H,), (W,))
        if dask and fname in ('proximity', 'allocation', 'direction'):
            chunks = ((H,), (W,)) if rng.random() < 0.5 else chunks
        r = gen.mk(arr, attrs=copy.deepcopy(attrs), name='input%d' % i, extra=True, chunks=chunks, **geom)
        args.append(r)
    ys = args[0]['y'].values; xs = args[0]['x'].values
    gc_ok = float(np.abs(xs).max()) <= 180 and float(np.abs(ys).max()) <= 90
    aux = dict(passes=int(rng.choice([0, 0, 1, 2, 8, 9])), metric=('GREAT_CIRCLE' if (gc_ok and rng.random() < 0.4) else 'EUCLIDEAN'), maxd=float(rng.choice([np.inf, 2 * max(geom['cx'], geom['cy'])])) if not dask else np.inf,
               start=(float(ys[0]), float(xs[0])), goal=(float(ys[-1]), float(xs[-1])), vx=float(xs[W // 2]), vy=float(ys[H // 2]),
               nb=int(rng.choice([4, 8])), seed=int(rng.integers(0, 50)))
    return args, aux, geom


def _outputs_arrays(res):
    """numpy/dask arrays held by a result (DataArray, Dataset, tuple of lists, DataFrame -> none)."""
    if isinstance(res, xr.DataArray):
        return [res.data]
    if isinstance(res, xr.Dataset):
        # summarize_terrain returns a Dataset that, by design, carries the input raster itself as its first variable:
        # only the derived variables are outputs of the analysis
        return [v.data for k, v in res.data_vars.items() if '-' in str(k)]
    if isinstance(res, tuple):
        out = []
        for part in res:
            if isinstance(part, list):
                for p in part:
                    if isinstance(p, np.ndarray): out.append(p)
                    elif isinstance(p, list): out.extend(q for q in p if isinstance(q, np.ndarray))
        return out
    return []


def one_call(rec, fname, args, aux, snaps, dtype, layout, dask, seq_pos=0, extra_pay=None):
    F = _F or _F.update(_funcs()) or _F
    nargs, call, ident, dask_ok = F[fname]
    import dask.array as da
    pay = dict(func=fname, dtype=dtype, layout=layout, backend='dask' if dask else 'numpy', position_in_sequence=seq_pos, **(extra_pay or {}))
    rec.evaluation()
    res = rec.call(call, args[:nargs], aux)
    if hasattr(res, 'exc'):
        msg = res.msg.lower()
        if 'read-only' in msg or 'readonly' in msg or 'not writeable' in msg or 'read only' in msg:
            mech = 'perlin.writes_into_input' if fname == 'perlin' else fname + '.writes_into_readonly_input'
            rec.violation(mech, '%s raised on a read-only input: it tries to write into its argument: %r' % (fname, res), pay)
        else:
            rec.rej('raises.%s' % fname)
        return None
    # 1. arguments unchanged
    for i, (a, s) in enumerate(zip(args[:nargs], snaps[:nargs])):
        d = s.diff(a, allow_widen=(fname == 'viewshed'))
        if d is not None:
            if s.is_dask and d.startswith('values') is False and False:
                pass
            mech = fname + '.modifies_input'
            if fname == 'perlin':
                mech = 'perlin.writes_into_input'
            rec.violation(mech, '%s changed its argument #%d: %s' % (fname, i, d), dict(pay, argument=i)); return None
        if s.chunks is not None and getattr(a.data, 'chunks', None) != s.chunks:
            rec.cls('witness.input_chunks_changed.' + fname)
    rec.ok('inputs_unmodified')
    if any(c in args[0].coords for c in ('band', 'spatial_ref')):
        pass
    # 2. no shared writable memory; write probe
    outs = _outputs_arrays(res)
    if dask and outs and isinstance(outs[0], da.Array):
        if ident in ('full', 'attrs+unit'):
            rec.ok('backend.dask')
        try:
            outs = [np.asarray(o.compute()) if isinstance(o, da.Array) else o for o in outs]
        except Exception as e:
            rec.rej('raises_at_compute.%s' % fname); return None
        # after compute the inputs are still unchanged
        for i, (a, s) in enumerate(zip(args[:nargs], snaps[:nargs])):
            d = s.diff(a)
            if d is not None:
                rec.violation(fname + '.modifies_input', '%s changed its argument #%d during compute: %s' % (fname, i, d), dict(pay, argument=i)); return None
    elif dask and ident in ('full', 'attrs+unit'):
        rec.violation(fname + '.backend_lost', '%s on a Dask raster returned %s' % (fname, type(outs[0]).__name__ if outs else type(res).__name__), pay); return None
    if not dask and ident != 'view':
        for o in outs:
            if not isinstance(o, np.ndarray) or o.size == 0:
                continue
            for i, a in enumerate(args[:nargs]):
                if isinstance(a.data, np.ndarray) and np.shares_memory(o, a.data) and o.flags.writeable:
                    mech = 'perlin.writes_into_input' if fname == 'perlin' else fname + '.output_aliases_input'
                    rec.violation(mech, '%s: the output shares writable memory with argument #%d' % (fname, i), dict(pay, argument=i)); return None
            if o.flags.writeable:
                try:
                    o[...] = o.dtype.type(113) if o.dtype.kind != 'b' else True
                except Exception:
                    continue
        for i, (a, s) in enumerate(zip(args[:nargs], snaps[:nargs])):
            d = s.diff(a, allow_widen=(fname == 'viewshed'))
            if d is not None:
                rec.violation(fname + '.output_aliases_input', 'writing into the output of %s changed argument #%d: %s' % (fname, i, d), dict(pay, argument=i)); return None
        rec.ok('no_shared_writable_memory')
    # 3. identity
    if ident in ('full', 'attrs+unit') and isinstance(res, xr.DataArray):
        src = args[0]
        problems = []
        if tuple(res.shape) != tuple(src.shape): problems.append('shape %s != %s' % (res.shape, src.shape))
        if tuple(res.dims) != tuple(src.dims): problems.append('dims %s != %s' % (res.dims, src.dims))
        for c in src.coords:
            if c not in res.coords:
                problems.append('coordinate %s dropped' % c)
            elif not np.array_equal(np.asarray(res.coords[c].values), np.asarray(src.coords[c].values)):
                problems.append('coordinate %s changed' % c)
        exp_attrs = snaps[0].attrs if ident == 'full' else dict(snaps[0].attrs, unit='%')
        if canon(dict(res.attrs)) != canon(exp_attrs): problems.append('attrs %r != %r' % (dict(res.attrs), exp_attrs))
        if problems:
            rec.violation(fname + '.identity', '%s: output does not keep the input\'s identity: %s' % (fname, '; '.join(problems)), pay); return None
        rec.ok('identity_kept'); rec.ok('scalar_coords_kept')
        # attrs must not be the same nested objects (mutating the output's nested attrs must not leak)
    # 4. the output's non-index coordinates (scalar, 1-D auxiliary, 2-D) must not be the input's own buffers: write into them
    if isinstance(res, xr.DataArray) and not dask and ident != 'view':      # trim/crop return views of their input by contract
        wrote = False
        for cn, cv in res.coords.items():
            if cn in res.dims:
                continue
            cd = cv.variable._data
            if isinstance(cd, np.ndarray) and cd.flags.writeable and cd.dtype.kind in 'fiu':
                try:
                    cd[...] = cd.dtype.type(77); wrote = True
                except Exception:
                    pass
        if wrote:
            for i, (a, s_) in enumerate(zip(args[:nargs], snaps[:nargs])):
                d = s_.diff(a, allow_widen=(fname == 'viewshed'))
                if d is not None:
                    rec.violation(fname + '.output_coords_alias_input', 'writing into a non-index coordinate of the output of %s changed argument #%d: %s'
                                  % (fname, i, d), dict(pay, argument=i)); return None
            rec.ok('output_coords_not_aliased')
    rec.ok('layout.' + layout); rec.cls('dtype.' + dtype); rec.cls('func.' + fname); rec.add('funcs', fname)
    rec.nontriv(fname, dask, dtype, layout)
    return res


def check(rec, kind, idx, rng, tier):
    F = _F or _F.update(_funcs()) or _F
    if kind == 'single':
        fname, r = idx.split(','); r = int(r)
        nargs, call, ident, dask_ok = F[fname]
        dts = ALL_DT if rec.mode == 'I' else ['float64', 'float32', 'int32', 'uint8']      # compiled mode: fewer dtypes, each costs a JIT per function
        combos = [(dt, lay) for dt in dts for lay in LAYOUTS]
        # each repetition takes a different slice of the dtype x layout grid so that the grid is covered across repetitions
        for j in range(6):
            dt, lay = combos[(r * 6 + j + hash(fname) % 7) % len(combos)] if False else combos[int(rng.integers(0, len(combos)))]
            dask = dask_ok and rng.random() < 0.35
            H, W = int(rng.integers(3, 8)), int(rng.integers(3, 8))
            args, aux, geom = _make_args(rng, fname, nargs, dt, lay, dask, H, W)
            snaps = [Snap(a) for a in args]
            if r == 0 and j == 0 and fname == 'slope':
                rec.sample(dict(func=fname, dtype=dt, layout=lay, backend='dask' if dask else 'numpy', array=np.asarray(args[0].values)))
            one_call(rec, fname, args, aux, snaps, dt, lay, dask)
        return
    # ---- sequences of calls on the same objects ------------------------------------------
    dt = str(rng.choice(ALL_DT if rec.mode == 'I' else ['float64', 'float32', 'int32', 'uint8'])); lay = str(rng.choice(LAYOUTS)); dask = bool(rng.random() < 0.3)
    H, W = int(rng.integers(3, 8)), int(rng.integers(3, 8))
    args, aux, geom = _make_args(rng, 'slope', 3, dt, lay, dask, H, W)
    snaps = [Snap(a) for a in args]
    pool = [n for n in _names() if (F[n][3] or not dask) and n not in ('perlin', 'generate_terrain', 'local.rank', 'local.popularity')]
    L = int(rng.integers(1, 6))
    seq = [str(s) for s in rng.choice(pool, size=L)]
    okc = 0
    nviol0 = sum(rec.viol_count.values())
    for pos, fname in enumerate(seq):
        nviol = sum(rec.viol_count.values())
        if pos and nviol > nviol0:
            break           # a violation leaves the shared objects in an unknown state: later calls would be blamed for it
        res = one_call(rec, fname, args, aux, snaps, dt, lay, dask, seq_pos=pos, extra_pay=dict(sequence=seq))
        if res is not None:
            okc += 1
        if fname == 'viewshed' and all(s_.diff(a_, allow_widen=True) is None for a_, s_ in zip(args, snaps)):
            # documented exception: viewshed may widen its input's dtype without changing a value (it does so before the sweep,
            # hence also when the call is later rejected); re-baseline so that later calls are not blamed for it
            snaps = [Snap(a) for a in args]
    if okc >= 3:
        rec.ok('sequence_len>=3')
    rec.ok('funcs_covered', 0)


def finish_worker(rec):
    rec.ok('funcs_covered', len(rec.sets.get('funcs', ())))
