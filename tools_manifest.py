#!/usr/bin/env python3
"""Regenerates MANIFEST.json from the table below (keeps it schema-valid)."""
import json, os
HERE = os.path.dirname(os.path.abspath(__file__))
CHECKS = json.load(open(os.path.join(HERE, 'manifest_checks.json')))
checks = []
for c in CHECKS['checks']:
    pid = c['id']
    checks.append({
        'property_id': pid,
        'quick_cmd': 'python3 run.py %s --tier quick' % pid,
        'thorough_cmd': 'python3 run.py %s --tier thorough' % pid,
        'evidence_file': 'evidence/%s.json' % pid,
        'replay_cmd_template': 'python3 run.py %s --replay {path}' % pid,
        'engine': 'vlib',
        'level_claimed': {'category': 'exploration', 'text': c['text'], 'design_ref': c['design_ref']},
        'level_note': c['note'],
        'technique': c['technique'],
    })
m = {
    'version': 1,
    'setup_cmd': 'python3 setup_check.py',
    'hooks': {
        'guard': 'XRSPATIAL_VERIF',
        'enable': 'no source hooks: monitors wrap module attributes from the harness; workers run /venv/bin/python with PYTHONPATH=/repo NUMBA_BOUNDSCHECK=1 (and NUMBA_DISABLE_JIT=1 for interpreted-mode workers); XRSPATIAL_VERIF=1 is exported but unused by /repo',
        'baseline_off_cmd': 'cd /repo && /venv/bin/python -m pytest -ra -q -p no:cacheprovider --timeout=900 --continue-on-collection-errors',
        'source_commits': [],
        'add_only': True,
    },
    'engines': [{'name': 'vlib', 'path': 'vlib/', 'serves_properties': [c['id'] for c in CHECKS['checks']],
                 'kind_free_text': 'runtime monitoring: real functions driven by seeded hostile workloads in subprocess workers (Numba bounds-check sanitizer on, interpreted-mode workers with wrapped internals), reference-model / metamorphic / hooked-state oracles, three-valued verdict'}],
    'checks': checks,
    'notes': CHECKS.get('notes', ''),
    'not_applicable': CHECKS.get('not_applicable', []),
}
json.dump(m, open(os.path.join(HERE, 'MANIFEST.json'), 'w'), indent=1)
print('wrote MANIFEST.json with %d checks, %d not_applicable' % (len(checks), len(m['not_applicable'])))
