#!/usr/bin/env python3
"""Developer tool: markdown summary of evidence/*.json (for DESIGN.md §8.5)."""
import json, glob, os
print('| property | tier | evaluations | distinct non-trivial | wall s | workers | oracle clauses held (count) | do-not-care | rejected |')
print('|---|---|---|---|---|---|---|---|---|')
for f in sorted(glob.glob('/verif/evidence/C*.json')):
    e = json.load(open(f)); c = e['coverage']
    cl = ', '.join('%s %d' % kv for kv in sorted(c['oracle_clauses_held'].items(), key=lambda kv: -kv[1])[:9])
    dc = ', '.join('%s %d' % kv for kv in c['dont_care'].items()) or '-'
    rj = ', '.join('%s %d' % kv for kv in c['rejected_outside_domain'].items()) or '-'
    wk = ' + '.join('%d %s' % (w['n'], {'J': 'compiled', 'I': 'interpreted'}[w['mode']]) for w in c['workers'])
    print('| %s | %s | %d | %d | %.0f | %s | %s | %s | %s |' % (e['property_id'], e['tier'], c['evaluations'], c['distinct_nontrivial'], e['wall_s'], wk, cl, dc, rj))
