#!/usr/bin/env python3
"""Developer tool: run every quick (or thorough) check under several seeds, report verdicts and the tightest floor margins.
   tools/sweep.py --seeds 1,2,3 [--tier quick] [--only C01,C02]"""
import argparse, json, os, subprocess, sys, importlib, time
if os.path.realpath(sys.executable) != os.path.realpath('/venv/bin/python') and os.path.exists('/venv/bin/python') and not os.environ.get('SWEEP_REEXEC'):
    os.environ['SWEEP_REEXEC'] = '1'; os.execv('/venv/bin/python', ['/venv/bin/python'] + sys.argv)   # the property modules import numpy
sys.path.insert(0, '/verif')
ap = argparse.ArgumentParser(); ap.add_argument('--seeds', default='1,2'); ap.add_argument('--tier', default='quick'); ap.add_argument('--only', default=None)
a = ap.parse_args()
pids = a.only.split(',') if a.only else ['C%02d' % i for i in range(1, 20)]
for seed in [int(s) for s in a.seeds.split(',')]:
    for pid in pids:
        t0 = time.time()
        env = dict(os.environ, VERIF_SEED=str(seed), VERIF_EVIDENCE_DIR='/tmp/sweep-evidence/%d' % seed)
        r = subprocess.run(['python3', '/verif/run.py', pid, '--tier', a.tier], env=env, cwd='/verif', capture_output=True, text=True)
        lines = [l for l in r.stdout.splitlines() if l.startswith(('VIOLATION', '  mechanism', 'INCONCLUSIVE', 'KNOWN'))]
        margin = ''
        try:
            ev = json.load(open('/tmp/sweep-evidence/%d/%s.json' % (seed, pid)))['coverage']
            mod = importlib.import_module('vlib.props.' + pid.lower())
            fl = getattr(mod, 'FLOORS', {}).get('quick', {})
            if a.tier == 'thorough': fl = {k: 2 * v for k, v in fl.items()}
            ratios = []
            for k, f in fl.items():
                have = ev['oracle_clauses_held'].get(k, ev['input_classes'].get(k, 0))
                if k == 'evaluations': have = ev['evaluations']
                if f: ratios.append((have / f, k, have, f))
            if ratios:
                rr = min(ratios); margin = 'tightest floor %s: %d/%d (x%.1f)' % (rr[1], rr[2], rr[3], rr[0])
            margin += ' skipped=%s' % ev.get('skipped_for_time')
        except Exception as e:
            margin = 'no evidence (%s)' % e
        print('seed %d %s rc=%d %.0fs %s' % (seed, pid, r.returncode, time.time() - t0, margin), flush=True)
        for l in lines[:4]:
            print('    ' + l[:260], flush=True)
