"""Naive per-zone reference for zonal.stats / zonal.crosstab (C02, C03, C04)."""
import numpy as np

STATS = ['mean', 'max', 'min', 'sum', 'std', 'var', 'count']


def zone_list(zones):
    z = np.asarray(zones)
    zf = z.astype('float64')
    return np.unique(z[np.isfinite(zf)])


def valid(values, nodata):
    v = np.asarray(values)
    m = np.isfinite(v.astype('float64'))
    if nodata is not None:
        m &= (v != nodata)
    return m


def zone_vector(zones, values, zid, nodata):
    zones = np.asarray(zones); values = np.asarray(values)
    m = (zones == zid) & valid(values, nodata)
    return values[m]


def stat_ref(v, name):
    """Reference value (float64 arithmetic) and absolute tolerance for a statistic the library evaluates with numpy
    reductions in the dtype of `v` (float32 values are reduced in float32)."""
    n = len(v)
    if n == 0:
        return np.nan, 0.0
    f = v.astype('float64')
    eps = float(np.finfo(v.dtype).eps) if v.dtype.kind == 'f' else 2.3e-16
    sabs = float(np.abs(f).sum())
    m = float(f.mean())
    var = float(((f - m) ** 2).mean())
    if name == 'mean':
        return m, 8 * eps * sabs / n * max(1, np.log2(n + 1)) + 1e-300
    if name == 'sum':
        return float(f.sum()), 8 * eps * sabs * max(1, np.log2(n + 1)) + 1e-300
    if name == 'max':
        return float(f.max()), 0.0
    if name == 'min':
        return float(f.min()), 0.0
    if name == 'count':
        return float(n), 0.0
    tv = 16 * n * eps * var + 8 * (n * eps * abs(m)) ** 2 + 1e-300
    if name == 'var':
        return var, tv
    if name == 'std':
        return float(np.sqrt(var)), float(np.sqrt(var + tv) - np.sqrt(max(var - tv, 0.0)) + 8 * eps * np.sqrt(var))
    raise ValueError(name)


def dask_formula_tol(v, name):
    """Tolerance for the Dask backend's documented formulas var=(S2 - S^2/n)/n, std=sqrt(var), mean=S/n."""
    n = len(v)
    if n == 0:
        return 0.0
    f = v.astype('float64')
    eps = 2.3e-16 if v.dtype.kind != 'f' else max(2.3e-16, float(np.finfo(v.dtype).eps) if v.dtype == np.float32 else 2.3e-16)
    s2 = float((f * f).sum())
    if name == 'var':
        return 8 * 0.5 * eps * s2 * max(1, np.log2(n + 1)) / 1 + 1e-300
    if name == 'std':
        return 8 * 0.6 * float(np.sqrt(eps * s2 * max(1, np.log2(n + 1)))) + 1e-300
    return None


def crosstab_count(zones, values, zid, cat, nodata):
    zones = np.asarray(zones); values = np.asarray(values)
    return int(((zones == zid) & valid(values, nodata) & (values == cat)).sum())


def zone_total(zones, values, zid, nodata):
    zones = np.asarray(zones)
    return int(((zones == zid) & valid(values, nodata)).sum())


def cats(values, nodata):
    v = np.asarray(values)
    return np.unique(v[valid(v, nodata)])
