"""Tolerance / comparison policy in one place (DESIGN §3.3)."""
import numpy as np

EPS32 = float(np.finfo('float32').eps)
EPS64 = float(np.finfo('float64').eps)


def first_diff_exact(a, b):
    """None if a and b are equal cell for cell (NaN == NaN, same shape); else (index, a, b) or a string."""
    a = np.asarray(a); b = np.asarray(b)
    if a.shape != b.shape:
        return 'shape %s vs %s' % (a.shape, b.shape)
    if a.dtype.kind in 'fc' or b.dtype.kind in 'fc':
        af = a.astype('float64'); bf = b.astype('float64')
        bad = ~((af == bf) | (np.isnan(af) & np.isnan(bf)))
    else:
        bad = a != b
    if not bad.any():
        return None
    idx = tuple(int(i) for i in np.argwhere(bad)[0])
    return (idx, a[idx].item(), b[idx].item(), int(bad.sum()))


def first_diff_close(got, ref, rtol, atol=0.0, scale=None):
    """|got-ref| <= rtol*max(|ref|, scale) + atol, NaN positions must agree, inf must match exactly."""
    got = np.asarray(got, dtype='float64'); ref = np.asarray(ref, dtype='float64')
    if got.shape != ref.shape:
        return 'shape %s vs %s' % (got.shape, ref.shape)
    nan_g, nan_r = np.isnan(got), np.isnan(ref)
    bad = nan_g != nan_r
    fin = ~(nan_g | nan_r)
    with np.errstate(invalid='ignore', over='ignore'):
        sc = np.abs(ref) if scale is None else np.maximum(np.abs(ref), scale)
        lim = rtol * sc + atol
        d = np.abs(got - ref)
        both_inf = np.isinf(got) & np.isinf(ref) & (got == ref)
        bad |= fin & ~both_inf & ~(d <= lim)
    if not bad.any():
        return None
    idx = tuple(int(i) for i in np.argwhere(bad)[0])
    return (idx, float(got[idx]), float(ref[idx]), int(bad.sum()))


def same_bytes(a, b):
    a = np.ascontiguousarray(a); b = np.ascontiguousarray(b)
    return a.shape == b.shape and a.dtype == b.dtype and a.tobytes() == b.tobytes()
