"""Seeded generators of hostile inputs (rasters, layouts, coordinates, chunkings)."""
import itertools

import numpy as np
import xarray as xr

INT_DTYPES = ['int8', 'uint8', 'int16', 'uint16', 'int32', 'uint32', 'int64', 'uint64']
FLOAT_DTYPES = ['float32', 'float64']


def random_composition(n, rng, p=None):
    """Random composition of n (tuple of positive ints summing to n)."""
    if n <= 0:
        return ()
    if p is None:
        p = rng.choice([0.0, 0.15, 0.4, 0.7, 1.0])
    cuts = rng.random(n - 1) < p
    out, cur = [], 1
    for c in cuts:
        if c:
            out.append(cur)
            cur = 1
        else:
            cur += 1
    out.append(cur)
    return tuple(out)


def all_compositions(n):
    for bits in itertools.product([0, 1], repeat=n - 1):
        out, cur = [], 1
        for b in bits:
            if b:
                out.append(cur)
                cur = 1
            else:
                cur += 1
        out.append(cur)
        yield tuple(out)


def values(rng, shape, cls, dtype='float64'):
    """Value classes: smallint (ties/plateaus), dyadic, uniform, unrep32 (not float32 representable), big."""
    H, W = shape
    if cls == 'smallint':
        a = rng.integers(0, rng.integers(2, 7), size=shape).astype('float64')
    elif cls == 'int':
        a = rng.integers(-50, 200, size=shape).astype('float64')
    elif cls == 'dyadic':
        a = rng.integers(-64, 64, size=shape) / 8.0
    elif cls == 'uniform':
        a = rng.uniform(-100, 100, size=shape)
    elif cls == 'unrep32':
        a = rng.uniform(0, 1000, size=shape) + rng.uniform(0, 1e-7, size=shape)
    elif cls == 'big':
        a = rng.uniform(-1, 1, size=shape) * 10.0 ** rng.integers(3, 7)
    elif cls == 'const':
        a = np.full(shape, float(rng.integers(-3, 9)))
    elif cls == 'ramp':
        yy, xx = np.mgrid[0:H, 0:W]
        a = (rng.integers(-3, 4) * yy + rng.integers(-3, 4) * xx + rng.integers(0, 5)).astype('float64')
    else:
        raise ValueError(cls)
    dt = np.dtype(dtype)
    if dt.kind in 'iu':
        a = np.round(a)
        info = np.iinfo(dt)
        if dt.kind == 'u':
            a = np.abs(a)
        a = np.clip(a, info.min, info.max)
    return a.astype(dt)


def sprinkle(a, rng, rate=None, what=(np.nan,), where=None):
    """Return a float copy with NaN/inf sprinkled."""
    a = np.array(a, dtype=a.dtype if a.dtype.kind == 'f' else 'float64', copy=True)
    if rate is None:
        rate = rng.choice([0.0, 0.05, 0.3])
    if where is None:
        where = rng.choice(['random', 'border', 'block'])
    H, W = a.shape
    m = np.zeros(a.shape, bool)
    if rate > 0:
        if where == 'random':
            m = rng.random(a.shape) < rate
        elif where == 'border':
            m[0, :] = m[-1, :] = m[:, 0] = m[:, -1] = True
            m &= rng.random(a.shape) < max(rate * 3, 0.5)
        else:
            h = max(1, int(H * rate * 2)); w = max(1, int(W * rate * 2))
            r0 = rng.integers(0, H - h + 1); c0 = rng.integers(0, W - w + 1)
            m[r0:r0 + h, c0:c0 + w] = True
    vals = rng.choice(np.array(what, dtype='float64'), size=a.shape)
    a[m] = vals[m]
    return a


def layout(a, kind, rng=None):
    """Same values, different memory layout."""
    if kind == 'C':
        return np.ascontiguousarray(a).copy()
    if kind == 'F':
        return np.asfortranarray(a).copy(order='F')
    if kind == 'strided':
        big = np.zeros((a.shape[0] * 2, a.shape[1] * 2 + 1), dtype=a.dtype)
        v = big[::2, 1::2]
        v[...] = a
        return v
    if kind == 'neg':
        b = np.ascontiguousarray(a[::-1, ::-1]).copy()
        return b[::-1, ::-1]
    if kind == 'readonly':
        b = np.ascontiguousarray(a).copy()
        b.setflags(write=False)
        return b
    raise ValueError(kind)


def rand_layout(a, rng, p=0.35):
    """With probability p return the same values in a non-C memory layout (Fortran, strided view, negative stride)."""
    if a.ndim != 2 or rng.random() >= p:
        return a
    return layout(a, str(rng.choice(['F', 'strided', 'neg'])))


def coords(H, W, cx=1.0, cy=1.0, x0=0.0, y0=0.0, ydesc=False, xdesc=False):
    ys = y0 + cy * np.arange(H, dtype='float64')
    xs = x0 + cx * np.arange(W, dtype='float64')
    if ydesc:
        ys = ys[::-1].copy()
    if xdesc:
        xs = xs[::-1].copy()
    return ys, xs


def mk(a, cx=1.0, cy=1.0, x0=0.0, y0=0.0, ydesc=False, xdesc=False, res=None, attrs=None, name=None,
       dims=('y', 'x'), extra=False, chunks=None):
    H, W = a.shape[-2:]
    ys, xs = coords(H, W, cx, cy, x0, y0, ydesc, xdesc)
    at = {} if attrs is None else dict(attrs)
    if res is not None:
        at['res'] = res
    data = a
    if chunks is not None:
        import dask.array as da
        data = da.from_array(a, chunks=chunks)
    c = {dims[0]: ys, dims[1]: xs}
    r = xr.DataArray(data, dims=list(dims), coords=c, attrs=at, name=name)
    if extra:
        # non-dimension coordinates: scalars, a 1-D auxiliary coordinate along y and a 2-D one (curvilinear lon)
        r = r.assign_coords(band=1, spatial_ref=0)
        if extra == 'aux' or extra is True:
            r = r.assign_coords(row_id=((dims[0],), np.arange(H) + 100), lon2d=((dims[0], dims[1]), np.add.outer(ys, xs)))
    return r


def random_geom(rng):
    """Random coordinate geometry parameters."""
    cx = float(rng.choice([1.0, 1.0, 0.5, 2.0, 0.1, 1 / 3, 2.5, 10.0, 30.0, 1 / 3600]))      # 1/3600: one arc-second, digits beyond the 5th decimal
    cy = cx if rng.random() < 0.5 else float(rng.choice([1.0, 0.5, 2.0, 0.25, 3.0, 0.1, 7.5, 1 / 1200]))
    return dict(cx=cx, cy=cy, x0=float(rng.choice([0.0, 0.0, 10.0, -7.5, 100.25])),
                y0=float(rng.choice([0.0, 0.0, 5.0, -3.25, 1000.5])),
                ydesc=bool(rng.random() < 0.5), xdesc=bool(rng.random() < 0.15))


def random_chunks(shape, rng):
    return tuple(random_composition(n, rng) for n in shape)


def chunk_classes(chunks):
    """Labels describing a chunking (for evidence)."""
    out = []
    if all(len(c) == 1 for c in chunks):
        out.append('single-block')
    if any(len(c) > 1 for c in chunks):
        out.append('multi-block')
    if any(1 in c and len(c) > 1 for c in chunks):
        out.append('has-1-cell-chunk')
    if all(all(x == 1 for x in c) for c in chunks) and any(len(c) > 1 for c in chunks):
        out.append('all-1-cell')
    if any(len(set(c)) > 1 for c in chunks):
        out.append('ragged')
    return out


def kernel01(rng, maxh=7, maxw=7, shape=None):
    if shape is None:
        kh = int(rng.choice([k for k in (1, 3, 5, 7) if k <= maxh]))
        kw = int(rng.choice([k for k in (1, 3, 5, 7) if k <= maxw]))
    else:
        kh, kw = shape
    k = (rng.random((kh, kw)) < rng.choice([0.3, 0.5, 0.8, 1.0])).astype('float64')
    if k.sum() == 0:
        k[rng.integers(0, kh), rng.integers(0, kw)] = 1
    return k
