#!/usr/bin/env python3
"""Developer helper (never used by checks): kf.py <property> <key> <status> <commit|-> <what>"""
import json, sys
p='known_findings.json'; d=json.load(open(p))
pid,key,status,commit,what=sys.argv[1:6]
e={'property':pid,'key':key,'status':status,'what':('fixed: property=%s %s %s'%(pid,commit,what)) if status=='fixed' else what}
if status=='fixed': e['commit']=commit
d['findings']=[f for f in d['findings'] if not (f['property']==pid and f['key']==key)]+[e]
json.dump(d,open(p,'w'),indent=1)
