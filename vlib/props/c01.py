"""C01 Dask-backed rasters give the NumPy result for every chunking and scheduler."""
import itertools
import threading
import time

import numpy as np
import xarray as xr

from vlib import gen, tol

PID = 'C01'
RULE = ("25 operations (slope, aspect, curvature, hillshade, focal mean/apply/focal_stats/hotspots, convolution_2d, binary, reclassify, "
        "equal_interval, ten spectral indices, true_color, perlin, generate_terrain) x rasters 1x1..12x12 (thorough: 64x80 stress) "
        "over int/float dtypes with NaN/inf cells, non-unit and non-square cell sizes x random chunk compositions (1-cell chunks, "
        "chunks smaller than the kernel, ragged, single block; thorough: every composition pair for H,W<=5) x odd kernels incl. "
        "non-square and larger than a chunk x scheduler {synchronous, threads x 1/2/4/16}; a dask Callback injects seeded 0-500us "
        "sleeps before tasks under the threaded scheduler and records task order and thread ids; non-trivial = distinct (operation, "
        "data, chunking, arguments) with >= 2 blocks on some axis and a non-constant raster")
BUDGET = {'quick': 300, 'thorough': 1200}
FLOORS = {'quick': {'dask_equals_numpy': 585, 'stays_dask': 585, 'chunks.has-1-cell-chunk': 250, 'kernel_larger_than_a_chunk': 72,
                    'kernel_nonsquare': 58, 'scheduler.threads': 300, 'threaded_runs_with_>=2_threads': 20},
          'thorough': {'dask_equals_numpy': 9000, 'all_compositions_blocks': 200}}
DONTCARE_OF = {'hotspots.threshold_band': 'hotspots.cells_compared'}
EXHAUSTIVE = {'quick': [], 'thorough': ['every pair of compositions (chunking) of an HxW raster with H,W<=5 for slope, focal.mean, convolution_2d (3x3 kernel) and focal.apply (non-square kernel)']}
ASSUMPTIONS = ['bit-identical comparison where both backends run the same per-cell kernel; perlin: 4e-6 absolute (da.linspace vs np.linspace '
               'differ by one float32 ulp), generate_terrain: 2e-5 x zfactor (float32 template accumulates in float32 on NumPy, float64 '
               'on Dask) with the 0.3 water threshold as a do-not-care band; hotspots: cells whose z-score is within float32 rounding of a '
               'threshold are do-not-care; true_color RGB only where the band is finite',
               'tasks executed during graph construction (eager computes, e.g. global min/max of equal_interval) are reported, not judged',
               'quantile is not in the property (Dask percentiles are approximate by design)']
E32 = tol.EPS32

OPS_ = None
OPS = ['slope', 'aspect', 'curvature', 'hillshade', 'mean', 'apply', 'focal_stats', 'hotspots', 'convolution_2d', 'binary', 'reclassify',
       'equal_interval', 'arvi', 'evi', 'gci', 'nbr', 'nbr2', 'ndvi', 'ndmi', 'savi', 'sipi', 'ebbi', 'true_color', 'perlin', 'generate_terrain']


for _op in OPS:
    FLOORS['quick']['op.' + _op] = 15
    FLOORS['thorough']['op.' + _op] = 150


def plan(tier, seed):
    out = []
    reps = 48 if tier == 'quick' else 400
    for r in range(reps):
        for op in OPS:
            out.append((op, r))
    if tier == 'thorough':
        for op in ('slope', 'mean', 'convolution_2d', 'apply'):
            for (h, w) in itertools.product(range(1, 6), repeat=2):
                out.append(('allcomp', '%s,%d,%d' % (op, h, w)))
        for op in ('slope', 'mean', 'hotspots', 'true_color', 'perlin', 'generate_terrain', 'apply', 'equal_interval'):
            for r in range(6):
                out.append(('stress', '%s,%d' % (op, r)))
    return out


class SchedSpy:
    """Observes and perturbs the threaded scheduler at its own suspension points.

    * a dask Callback counts tasks (also used to count tasks executed during graph construction);
    * under the threaded scheduler the thread pool handed to dask wraps every submitted batch: the worker thread records its
      id and the keys it is about to run, then sleeps a seeded 0-500 us (between tasks, never inside a kernel)."""

    def __init__(self, rng, inject, workers=0):
        from concurrent.futures import ThreadPoolExecutor
        from dask.callbacks import Callback
        self.order = []; self.threads = set(); self.lock = threading.Lock()
        self.delays = rng.integers(0, 500, size=4096) if inject else None
        self.n = 0
        spy = self

        class CB(Callback):
            def _pretask(self, key, dsk, state):
                with spy.lock:
                    spy.n += 1
        self.cb = CB()
        self.pool = None
        if workers:
            class SpyPool(ThreadPoolExecutor):
                def submit(self, fn, *a, **k):
                    def wrapped(*aa, **kk):
                        try:
                            keys = [str(t[0])[:40] for t in aa[0]]
                        except Exception:
                            keys = ['?']
                        with spy.lock:
                            i = len(spy.order)
                            spy.order.extend(keys); spy.threads.add(threading.get_ident())
                        if spy.delays is not None:
                            time.sleep(spy.delays[i % 4096] * 1e-6)
                        return fn(*aa, **kk)
                    return super().submit(wrapped, *a, **k)
            self.pool = SpyPool(workers)

    def close(self):
        if self.pool is not None:
            self.pool.shutdown(wait=True)


def _raster(rng, H, W, floats_only=False, positive=False):
    cls = str(rng.choice(['smallint', 'int', 'dyadic', 'uniform', 'ramp', 'big']))
    dtype = str(rng.choice(['float64', 'float32', 'int32', 'int64', 'uint8', 'uint16', 'float64']))
    if floats_only:
        dtype = str(rng.choice(['float64', 'float32']))
    a = gen.values(rng, (H, W), cls, dtype)
    if positive:
        a = np.abs(a)
    if a.dtype.kind == 'f' and rng.random() < 0.5:
        a = gen.sprinkle(a, rng, float(rng.choice([0.05, 0.2])), what=(np.nan, np.nan, np.inf, -np.inf) if rng.random() < 0.3 else (np.nan,)).astype(dtype)
    return cls, dtype, a


def _kernel(rng, maxside=7):
    kh = int(rng.choice([1, 3, 3, 5, 7])); kw = int(rng.choice([1, 3, 3, 5, 7]))
    return gen.kernel01(rng, shape=(kh, kw))


def build_call(op, rng, H, W):
    """returns dict(f, arrays=[np arrays in arg order], kwargs, compare, kernel, note)"""
    import xrspatial
    from xrspatial import focal, convolution, classify, multispectral as ms
    spec = dict(kernel=None, compare='exact', kwargs={}, post=None)
    if op in ('slope', 'aspect', 'curvature'):
        spec['f'] = getattr(xrspatial, op); spec['arrays'] = [_raster(rng, H, W)[2]]
    elif op == 'hillshade':
        spec['f'] = xrspatial.hillshade; spec['arrays'] = [_raster(rng, H, W)[2]]
        if rng.random() < 0.7:
            spec['kwargs'] = dict(azimuth=float(rng.choice([225, 0, 90, 315, 47.5])), angle_altitude=float(rng.choice([25, 0, 45, 90])))
    elif op == 'mean':
        spec['f'] = focal.mean; spec['arrays'] = [_raster(rng, H, W)[2]]
        spec['kwargs'] = dict(passes=int(rng.choice([0, 1, 2, 2, 3])))
        if rng.random() < 0.6:
            # excluded-value lists without NaN matter most: then NaN cells (and any NaN padding a backend adds) are averaged like data
            spec['kwargs']['excludes'] = [[np.nan], [0], [np.nan, 0.0], [1.0, 2.0], [0], [2.0]][int(rng.integers(0, 6))]
    elif op == 'apply':
        spec['f'] = focal.apply; spec['arrays'] = [_raster(rng, H, W)[2]]; spec['kernel'] = _kernel(rng)
        fn = str(rng.choice(['_calc_mean', '_calc_sum', '_calc_max', '_calc_min', '_calc_std', '_calc_range', '_calc_var']))
        spec['kwargs'] = dict(kernel=spec['kernel'], func=getattr(focal, fn)); spec['note'] = fn
    elif op == 'focal_stats':
        spec['f'] = focal.focal_stats; spec['arrays'] = [_raster(rng, H, W)[2]]; spec['kernel'] = _kernel(rng)
        st = [str(s) for s in rng.permutation(['mean', 'max', 'min', 'range', 'std', 'var', 'sum'])[:int(rng.integers(1, 4))]]
        spec['kwargs'] = dict(kernel=spec['kernel'], stats_funcs=st)
    elif op == 'hotspots':
        spec['f'] = focal.hotspots; a = _raster(rng, max(H, 3), max(W, 3))[2]
        if a.dtype.kind == 'f' and rng.random() < 0.6:
            # plateau: mean large against the spread (single-pass variance formulas cancel catastrophically here)
            a = (float(rng.choice([2500.0, 900.0, 12000.0])) + rng.uniform(0, 4, a.shape)).astype(a.dtype)
        for _ in range(int(rng.integers(0, 3))):
            y0, x0 = int(rng.integers(0, a.shape[0])), int(rng.integers(0, a.shape[1]))
            a[max(0, y0 - 1):y0 + 2, max(0, x0 - 1):x0 + 2] += a.dtype.type(60)
        spec['arrays'] = [a]; spec['kernel'] = _kernel(rng, 5); spec['kwargs'] = dict(kernel=spec['kernel']); spec['compare'] = 'hotspots'
    elif op == 'convolution_2d':
        spec['f'] = convolution.convolution_2d; spec['arrays'] = [_raster(rng, H, W)[2]]
        k = _kernel(rng)
        if rng.random() < 0.5:
            k = k * np.round(rng.uniform(-2, 2, k.shape), 2)
        spec['kernel'] = k; spec['kwargs'] = dict(kernel=k)
    elif op == 'binary':
        a = _raster(rng, H, W)[2]
        fin = a[np.isfinite(a.astype('float64'))]
        vals = [fin[int(rng.integers(0, len(fin)))].item() for _ in range(int(rng.integers(1, 4)))] if len(fin) else [1.0]
        vals = vals + [float(v) for v in rng.choice([1.5, 0.1, 2.0, 7.25, 0.7], size=int(rng.integers(0, 3)))]      # lookup values the raster dtype cannot hold
        spec['f'] = classify.binary; spec['arrays'] = [a]; spec['kwargs'] = dict(values=vals)
    elif op == 'reclassify':
        a = _raster(rng, H, W)[2]
        nb = int(rng.integers(1, 7)); bins = np.sort(rng.uniform(-60, 210, nb)).tolist()
        if rng.random() < 0.3: bins[-1] = np.inf
        spec['f'] = classify.reclassify; spec['arrays'] = [a]; spec['kwargs'] = dict(bins=bins, new_values=[float(v) for v in rng.integers(0, 9, nb)])
    elif op == 'equal_interval':
        a = _raster(rng, H, W)[2]
        kk = int(rng.integers(2, 12))
        if rng.random() < 0.4:
            # decimal grid: many cells sit exactly on class boundaries (cuts computed in another precision move them)
            a = (rng.integers(0, 21, (H, W)) * 0.05).astype(str(rng.choice(['float32', 'float32', 'float64']))); kk = int(rng.choice([4, 5, 10]))
        spec['f'] = classify.equal_interval; spec['arrays'] = [a]; spec['kwargs'] = dict(k=kk); spec['compare'] = 'equal_interval'
    elif op in ('arvi', 'evi', 'gci', 'nbr', 'nbr2', 'ndvi', 'ndmi', 'savi', 'sipi', 'ebbi'):
        nb = {'arvi': 3, 'evi': 3, 'gci': 2, 'nbr': 2, 'nbr2': 2, 'ndvi': 2, 'ndmi': 2, 'savi': 2, 'sipi': 3, 'ebbi': 3}[op]
        dtype = str(rng.choice(['uint8', 'uint16', 'float32', 'float64', 'int32']))
        arrs = []
        for i in range(nb):
            b = rng.integers(0, 200, (H, W)).astype('float64')
            b[rng.random((H, W)) < 0.1] = 0
            b = b.astype(dtype)
            if b.dtype.kind == 'f' and rng.random() < 0.4:
                b = gen.sprinkle(b, rng, 0.1).astype(dtype)
            arrs.append(b)
        spec['f'] = getattr(ms, op); spec['arrays'] = arrs
        if op == 'savi' and rng.random() < 0.7: spec['kwargs'] = dict(soil_factor=float(rng.choice([1.0, 0.0, -1.0, 0.5])))
        if op == 'evi' and rng.random() < 0.7: spec['kwargs'] = dict(c1=float(rng.choice([6.0, 1.0])), c2=float(rng.choice([7.5, 0.5])), soil_factor=float(rng.choice([1.0, 0.0, -0.5])), gain=float(rng.choice([2.5, 1.0])))
    elif op == 'true_color':
        dtype = str(rng.choice(['uint8', 'uint16', 'float32', 'float64', 'int32']))
        arrs = []
        for i in range(3):
            b = rng.integers(0, 255, (max(H, 2), max(W, 2))).astype(dtype)
            if b.dtype.kind == 'f' and rng.random() < 0.5:
                b = gen.sprinkle(b, rng, 0.15).astype(dtype)
            arrs.append(b)
        spec['f'] = ms.true_color; spec['arrays'] = arrs; spec['compare'] = 'true_color'
        if rng.random() < 0.5: spec['kwargs'] = dict(nodata=float(rng.choice([0, 1, 50])))
    elif op == 'perlin':
        dtype = str(rng.choice(['float32', 'float64']))
        spec['f'] = xrspatial.perlin; spec['arrays'] = [np.zeros((max(H, 2), max(W, 2)), dtype)]
        spec['kwargs'] = dict(freq=(float(rng.choice([1, 2, 5, 0.5, 13.7])), float(rng.choice([1, 3, 0.25, 7]))), seed=int(rng.integers(0, 1000)))
        if rng.random() < 0.2: spec['kwargs'] = {}
        spec['compare'] = ('close', 0.0, 4e-6)
    elif op == 'generate_terrain':
        dtype = str(rng.choice(['float32', 'float64']))
        zf = float(rng.choice([4000, 1, 100]))
        spec['f'] = xrspatial.generate_terrain; spec['arrays'] = [np.zeros((max(H, 2), max(W, 2)), dtype)]
        xr_ = (0.0, float(rng.choice([500, 1e6]))); yr_ = (float(rng.choice([0, -300])), 300.0)
        spec['kwargs'] = dict(x_range=xr_, y_range=yr_, seed=int(rng.integers(0, 1000)), zfactor=zf)
        if rng.random() < 0.3:
            spec['kwargs']['full_extent'] = (xr_[0] - 100, yr_[0] - 100, xr_[1] + 1000, yr_[1] + 50)
        spec['compare'] = ('terrain', zf)
    else:
        raise ValueError(op)
    return spec


def run_pair(rec, op, spec, chunks_list, geom, sname, skw, rng, base_extra=None, inject=True):
    """Runs the NumPy call and the Dask call; judges; returns True if held."""
    import dask
    import dask.array as da
    arrays = spec['arrays']
    H, W = arrays[0].shape
    attrs = {'res': (geom['cx'], geom['cy']), 'nested': {'a': [1]}}
    np_args = [gen.mk(a.copy(), attrs=attrs, name='r%d' % i, **geom) for i, a in enumerate(arrays)]
    dk_args = [gen.mk(a.copy(), attrs=attrs, name='r%d' % i, chunks=chunks_list[i % len(chunks_list)], **geom) for i, a in enumerate(arrays)]
    kw = spec['kwargs']
    pay = dict(op=op, arrays=arrays, kwargs={k: (v if not callable(v) else getattr(v, '__name__', 'func')) for k, v in kw.items()},
               chunks=chunks_list, geom=geom, scheduler=sname, **(base_extra or {}))
    rec.evaluation()
    ref = rec.call(spec['f'], *np_args, **kw)
    if hasattr(ref, 'exc'):
        rec.rej('numpy_backend_raises.' + op); return None
    # tasks executed while the graph is being built (eager computes)
    spy0 = SchedSpy(rng, False)
    with spy0.cb:
        out = rec.call(spec['f'], *dk_args, **kw)
    if spy0.n:
        rec.cls('witness.eager_tasks_during_construction.' + op, spy0.n)
    if hasattr(out, 'exc'):
        mech = op + '.dask_raises'
        k_ = spec['kernel']
        if k_ is not None and out.type == 'ValueError' and 'overlapping depth' in out.msg and (k_.shape[0] // 2 > H or k_.shape[1] // 2 > W):
            # known finding: halo of the kernel larger than the whole raster is refused by dask.map_overlap
            mech = 'focal.dask_kernel_halo_exceeds_raster'
        rec.violation(mech, '%s on Dask raised %r (NumPy backend returns a result); chunks %s' % (op, out, chunks_list), pay); return False
    if not isinstance(out.data, da.Array):
        rec.violation(op + '.not_dask', '%s on a Dask raster returned %s before compute' % (op, type(out.data).__name__), pay); return False
    rec.ok('stays_dask')
    spy = SchedSpy(rng, inject and sname != 'synchronous', workers=skw.get('num_workers', 0))
    import warnings
    skw2 = dict(skw)
    if spy.pool is not None:
        skw2['pool'] = spy.pool
    with warnings.catch_warnings():
        warnings.simplefilter('ignore')
        with dask.config.set(**skw2), spy.cb:
            got = rec.call(lambda: out.data.compute())
    spy.close()
    if hasattr(got, 'exc'):
        if op == 'hotspots' and 'ZeroDivision' in got.type:
            rec.rej('hotspots.zero_std'); return None
        rec.violation(op + '.dask_raises', '%s on Dask raised at compute: %r; chunks %s' % (op, got, chunks_list), pay); return False
    refd = np.asarray(ref.data); got = np.asarray(got)
    pay.update(numpy=refd, dask=got)
    if got.shape != refd.shape:
        rec.violation(op + '.dask_shape', 'Dask result shape %s, NumPy %s' % (got.shape, refd.shape), pay); return False
    cmpm = spec['compare']
    d = None
    if cmpm == 'exact':
        d = tol.first_diff_exact(got, refd)
    elif cmpm == 'equal_interval':
        # same cuts from the same exact global min/max on both backends: labels must be identical
        d = tol.first_diff_exact(got, refd)
    elif cmpm == 'hotspots':
        a32 = arrays[0].astype('float32').astype('float64'); k = spec['kernel']
        gm = np.nanmean(a32); gs = np.nanstd(a32)
        kn = k / k.sum(); kh, kw_ = k.shape; hr, hc = kh // 2, kw_ // 2
        band = np.zeros((H, W), bool)
        for y in range(hr, H - hr):
            for x in range(hc, W - hc):
                w_ = a32[y - hr:y + hr + 1, x - hc:x + hc + 1]
                with np.errstate(invalid='ignore'):
                    m = (kn * w_).sum()
                if np.isnan(m) or gs == 0:
                    continue
                z = abs((m - gm) / gs); dz = 16 * E32 * (abs(m) + abs(gm) * np.log2(a32.size + 2) + gs) / gs
                band[y, x] = any(abs(z - t_) <= dz for t_ in (1.65, 1.96, 2.58))
        bad = (got != refd) & ~band
        rec.ok('hotspots.cells_compared', int((~band).sum())); rec.dc('hotspots.threshold_band', int(band.sum()))
        d = None if not bad.any() else (tuple(int(v) for v in np.argwhere(bad)[0]), got[bad][0].item(), refd[bad][0].item())
    elif cmpm == 'true_color':
        bad = got[..., 3] != refd[..., 3]
        if bad.any():
            d = ('alpha', tuple(int(v) for v in np.argwhere(bad)[0]))
        else:
            for ch in range(3):
                fin = np.isfinite(arrays[ch].astype('float64'))
                b2 = (got[..., ch] != refd[..., ch]) & fin
                if b2.any():
                    d = ('channel %d' % ch, tuple(int(v) for v in np.argwhere(b2)[0])); break
    elif cmpm[0] == 'close':
        d = tol.first_diff_close(got, refd, cmpm[1], cmpm[2])
    elif cmpm[0] == 'terrain':
        zf = cmpm[1]
        g64 = got.astype('float64'); r64 = refd.astype('float64')
        if np.isnan(r64).any() or np.isnan(g64).any():
            # degenerate normalisation: on tiny templates the noise can be constant, (x - min) / ptp is 0/0 on one backend and
            # rounding noise on the other - outside what the property can pin down
            rec.rej('generate_terrain.degenerate_constant_noise'); return None
        flip = (g64 == 0) != (r64 == 0)
        nz = np.where(g64 == 0, r64, g64)
        band = flip & (np.abs(nz - 0.3 * zf) <= 2e-4 * zf)
        bad = (flip & ~band) | (~flip & ~(np.abs(g64 - r64) <= 2e-5 * zf)) | (np.isnan(g64) != np.isnan(r64))
        if band.any(): rec.dc('terrain.water_threshold_band', int(band.sum()))
        d = None if not bad.any() else (tuple(int(v) for v in np.argwhere(bad)[0]), float(g64[bad][0]), float(r64[bad][0]))
    if d is not None:
        rec.violation(op + '.dask_differs', '%s: Dask result differs from NumPy at %r; chunks %s, scheduler %s, kernel %s' %
                      (op, d, chunks_list, sname, None if spec['kernel'] is None else spec['kernel'].shape), pay)
        return False
    # dims / coords / attrs equal to the NumPy result
    if tuple(out.dims) != tuple(ref.dims) or set(out.coords) != set(ref.coords) or dict(out.attrs) != dict(ref.attrs) or \
            not all(np.array_equal(np.asarray(out[c].values), np.asarray(ref[c].values)) for c in ref.coords):
        rec.violation(op + '.dask_identity', '%s: dims/coords/attrs of the Dask result differ from the NumPy result' % op, pay); return False
    rec.ok('dask_equals_numpy'); rec.add('ops', op); rec.cls('op.' + op)
    ch0 = chunks_list[0]
    for c in gen.chunk_classes(ch0): rec.ok('chunks.' + c)
    rec.add('chunkings', repr(chunks_list))
    if spec['kernel'] is not None:
        kh, kw_ = spec['kernel'].shape
        if kh != kw_: rec.ok('kernel_nonsquare')
        if kh > min(ch0[0]) or kw_ > min(ch0[1]): rec.ok('kernel_larger_than_a_chunk')
    rec.ok('scheduler.' + ('synchronous' if sname == 'synchronous' else 'threads'))
    rec.add('schedulers', sname)
    if sname != 'synchronous':
        rec.add('task_orders', hash(tuple(spy.order)))
        rec.mx('max_threads_in_one_run', len(spy.threads))
        if len(spy.threads) >= 2: rec.ok('threaded_runs_with_>=2_threads')
        rec.mx('max_tasks_in_one_run', spy.n)
    nblocks = len(ch0[0]) * len(ch0[1])
    a0 = arrays[0].astype('float64')
    if nblocks >= 2 and (op in ('perlin', 'generate_terrain') or len(np.unique(a0[np.isfinite(a0)])) > 1):
        rec.nontriv(op, b''.join(a.tobytes() for a in arrays), repr(chunks_list), repr(pay['kwargs']))
    if geom['cx'] != geom['cy']: rec.cls('cx!=cy')
    return True


def _sched(rng):
    s = str(rng.choice(['synchronous', 'threads1', 'threads2', 'threads4', 'threads16']))
    return s, (dict(scheduler='synchronous') if s == 'synchronous' else dict(scheduler='threads', num_workers=int(s[7:])))


def check(rec, kind, idx, rng, tier):
    if kind == 'allcomp':
        op, h, w = idx.split(','); h, w = int(h), int(w)
        spec = build_call(op, rng, h, w)
        if op in ('convolution_2d',):
            spec['kernel'] = np.array([[0., 1, 0], [1, 1, 1], [0, 1, 1]]); spec['kwargs'] = dict(kernel=spec['kernel'])
        if op == 'apply':
            from xrspatial import focal
            spec['kernel'] = np.array([[1., 0, 1]]); spec['kwargs'] = dict(kernel=spec['kernel'], func=focal._calc_sum)
        geom = gen.random_geom(rng)
        H, W = spec['arrays'][0].shape
        n = 0
        for cy in gen.all_compositions(H):
            for cx in gen.all_compositions(W):
                r = run_pair(rec, op, spec, [(cy, cx)], geom, 'synchronous', dict(scheduler='synchronous'), rng, dict(kind='all compositions'))
                n += 1
        rec.ok('all_compositions_blocks', 1); rec.cls('all_compositions_chunkings', n)
        return
    if kind == 'stress':
        op, r = idx.split(',')
        H, W = 64, 80
        spec = build_call(op, rng, H, W)
        geom = gen.random_geom(rng)
        chunks = (gen.random_composition(H, rng, 0.15), gen.random_composition(W, rng, 0.15))
        for rep in range(3):
            run_pair(rec, op, spec, [chunks], geom, 'threads16', dict(scheduler='threads', num_workers=16), rng, dict(kind='stress 64x80'))
        rec.ok('stress_64x80')
        return
    op = kind
    H, W = int(rng.integers(1, 13)), int(rng.integers(1, 13))
    spec = build_call(op, rng, H, W)
    H, W = spec['arrays'][0].shape
    geom = gen.random_geom(rng)
    c0 = gen.random_chunks((H, W), rng)
    chunks_list = [c0]
    if len(spec['arrays']) > 1 and rng.random() < 0.4:
        chunks_list = [c0] + [gen.random_chunks((H, W), rng) for _ in spec['arrays'][1:]]     # bands chunked differently
    sname, skw = _sched(rng)
    if len(rec.samples) < 1 and op in ('slope', 'apply', 'mean', 'ndvi', 'hotspots'):
        rec.sample(dict(op=op, array=spec['arrays'][0], chunks=chunks_list, kernel=spec['kernel'], scheduler=sname))
    ok = run_pair(rec, op, spec, chunks_list, geom, sname, skw, rng)
    if ok and len(chunks_list) > 1:
        rec.ok('bands_with_different_chunkings')


