"""C05 Viewshed marks a cell visible exactly when the line-of-sight model says so."""
import contextlib
import io
import sys

import numpy as np
import xarray as xr

from vlib import gen, tol
from vlib.refs import los

PID = 'C05'
RULE = ("terrains 2x2..12x12 (thorough: up to 20x20) over classes {small integers with ties/plateaus, uniform floats, stepped, "
        "ridges, pits, cones, integer dtypes}; every observer cell for shapes <= 4x4 (corners and edges included) and random "
        "observers otherwise; observer_elev in {0, +, -}, target_elev >= 0; square and non-square cells, descending y; oracle = "
        "O(n^2) evaluation of the line-of-sight model under its strictest and most lenient reading (a cell is judged only when "
        "both agree); non-trivial = distinct (terrain, observer, heights, cell size) with relief and >= 1 invisible cell")
BUDGET = {'quick': 280, 'thorough': 1200}
MODES = {'quick': [('J', 5), ('I', 11)], 'thorough': [('J', 6), ('I', 10)]}
FLOORS = {'quick': {'visibility.cells_judged': 20000, 'has_invisible_cell': 300, 'observer.corner': 60, 'observer.edge': 100,
                    'vertical_angle': 400, 'cx!=cy': 120, 'modeI.tree.rotations': 200, 'modeI.tree.deletes': 2000, 'compiled_mode_cases': 60,
                    'observer_elev.negative': 40, 'mirror_relation': 150, 'terrain_side>=12': 400},
          'thorough': {'visibility.cells_judged': 200000, 'has_invisible_cell': 3000}}
DONTCARE_OF = {'visibility.boundary_or_tie': 'visibility.cells_judged'}
ASSUMPTIONS = ['the reference evaluates the same geometric model (corner positions, bearing unwrapping, corner elevations) by brute force; it shares the model, not the sweep / balanced-tree machinery',
               'cells where a blocker bearing is within 1e-9 rad of a span boundary or a gradient tie is within 1e-9 are do-not-care',
               'interpreted-mode workers run the same kernels under CPython (first compiled call costs ~19 s per process); tree-operation counters and line coverage come from them; compiled-mode workers judge the same clauses']

_TREE = {}
_COV = {'lines': set()}


def plan(tier, seed):
    out = []
    # every observer cell on small shapes
    for (h, w) in [(2, 2), (2, 3), (3, 3), (3, 4), (4, 4), (2, 5)]:
        for rep in range(3 if tier == 'quick' else 24):
            out.append(('allobs', '%d,%d,%d' % (h, w, rep)))
    n = 2400 if tier == 'quick' else 40000
    out += [('rand', i) for i in range(n)]
    # mid-size terrains (12..20 a side): rarer tree shapes (two-children deletions under a stale ancestor) need more active cells
    out += [('mid', i) for i in range(1300 if tier == 'quick' else 20000)]
    return out


def shard_filter(descs, shard, nshards, mode):
    if mode == 'J':
        sel = [d for i, d in enumerate(descs) if i % 6 == 0 and d[0] != 'mid']
    else:
        sel = [d for i, d in enumerate(descs) if i % 6 != 0 or d[0] == 'mid']
    return [d for i, d in enumerate(sel) if i % nshards == shard]


def setup_worker(rec):
    if rec.mode != 'I':
        return
    V = sys.modules['xrspatial.viewshed']
    for name in ('_insert_into_tree', '_delete_from_tree', '_left_rotate', '_right_rotate', '_rb_insert_fixup', '_rb_delete_fixup',
                 '_find_max_value_within_key', '_tree_successor'):
        orig = getattr(V, name)

        def mk(orig, name):
            def wrapped(*a, **k):
                _TREE[name] = _TREE.get(name, 0) + 1
                return orig(*a, **k)
            return wrapped
        setattr(V, name, mk(orig, name))
    # line coverage of the anchored file (sys.monitoring, 3.12)
    try:
        mon = sys.monitoring
        tid = mon.COVERAGE_ID
        mon.use_tool_id(tid, 'verif-c05')
        fn = V.__file__

        def on_line(code, line):
            if code.co_filename == fn:
                _COV['lines'].add(line)
            return mon.DISABLE
        mon.register_callback(tid, mon.events.LINE, on_line)
        mon.set_events(tid, mon.events.LINE)
        _COV['on'] = True
    except Exception:
        _COV['on'] = False


def finish_worker(rec):
    if rec.mode != 'I':
        return
    for k, v in _TREE.items():
        rec.cls('modeI.calls.' + k, v)
    rec.ok('modeI.tree.rotations', _TREE.get('_left_rotate', 0) + _TREE.get('_right_rotate', 0))
    rec.ok('modeI.tree.deletes', _TREE.get('_delete_from_tree', 0))
    rec.ok('modeI.tree.inserts', _TREE.get('_insert_into_tree', 0))
    for ln in _COV['lines']:
        rec.add('modeI.lines_executed_in_viewshed.py', ln)
    # executed lines inside the delete-fixup and rotation functions (coverage witness)
    try:
        import inspect
        V = sys.modules['xrspatial.viewshed']
        for name in ('_rb_delete_fixup', '_rb_insert_fixup', '_left_rotate', '_right_rotate', '_delete_from_tree', '_find_max_value_within_key'):
            f = getattr(V, name)
            f = getattr(f, '__wrapped__', f)
            src, start = inspect.getsourcelines(f)
    except Exception:
        pass


def _terrain(rng, H, W):
    kind = str(rng.choice(['smallint', 'uniform', 'stepped', 'ridge', 'pit', 'cone', 'intdtype', 'plateau']))
    yy, xx = np.mgrid[0:H, 0:W]
    if kind == 'smallint': Z = rng.integers(0, 4, (H, W)).astype(float)
    elif kind == 'uniform': Z = rng.random((H, W)) * 10
    elif kind == 'stepped': Z = np.round(rng.random((H, W)) * 3) * 2
    elif kind == 'ridge':
        Z = rng.random((H, W)); Z[:, int(rng.integers(0, W))] += 5; Z[int(rng.integers(0, H)), :] += float(rng.choice([0, 3]))
    elif kind == 'pit':
        Z = np.full((H, W), 5.0) + rng.random((H, W)); r0, c0 = int(rng.integers(0, H)), int(rng.integers(0, W))
        Z[max(0, r0 - 1):r0 + 2, max(0, c0 - 1):c0 + 2] -= 4
    elif kind == 'cone':
        r0, c0 = rng.uniform(0, H), rng.uniform(0, W); Z = 8 - np.hypot(yy - r0, xx - c0) * float(rng.choice([0.5, 1.5]))
    elif kind == 'plateau':
        Z = np.zeros((H, W)); Z[H // 3:, W // 3:] = 2; Z[H // 2:, W // 2:] = 2
    else:
        Z = rng.integers(0, 50, (H, W)).astype(str(rng.choice(['int64', 'int32', 'uint8'])))
        if Z.dtype.itemsize >= 4 and rng.random() < 0.5:
            # integer elevations beyond 2**24 (millimetre DEMs, packed ids): relief of a few units on a base that single precision
            # cannot resolve; exact in the double precision the model is stated in
            Z = (Z % 8 + int(rng.choice([2 ** 24, 2 ** 26 + 1, 2 ** 30]))).astype(str(rng.choice(['int32', 'uint32', 'int64'])))
            kind = 'intdtype_large'
    return kind, Z


def _run_case(rec, Z, vr, vc, obs, tgt, cx, cy, ydesc, kind, sample=False):
    from xrspatial import viewshed
    H, W = Z.shape
    # coordinates that are not float-exact multiples of the cell size (0.3, 0.1, arc-seconds, geographic offsets)
    x0 = [3.0, 5.0, -122.5, 500015.0][(vr + 2 * vc + H) % 4]; y0 = [0.0, 37.25, -3.3][(vr + vc + W) % 3]
    ys = y0 + np.arange(H) * cy; xs = x0 + np.arange(W) * cx
    if ydesc:
        ys = ys[::-1].copy()
    r = xr.DataArray(gen.rand_layout(Z.copy(), np.random.default_rng(vr * 31 + vc)), dims=['y', 'x'], coords={'y': ys, 'x': xs}, attrs={'res': (cx, cy)})
    kw = {}
    if obs != 0 or rec is None: kw['observer_elev'] = obs
    if tgt != 0: kw['target_elev'] = tgt
    buf = io.StringIO()
    rec.evaluation()
    with contextlib.redirect_stdout(buf):
        out = rec.call(viewshed, r, x=float(xs[vc]), y=float(ys[vr]), **kw)
    printed = buf.getvalue()
    pay = dict(Z=Z, observer_cell=(vr, vc), observer_elev=obs, target_elev=tgt, cx=cx, cy=cy, ydesc=ydesc, terrain=kind, kernel_stdout=printed[:200])
    if hasattr(out, 'exc'):
        rec.violation('viewshed.raises', 'viewshed raised %r' % out, pay); return
    got = np.asarray(out.data, dtype='float64')
    pay['got'] = got
    if printed:
        rec.cls('witness.kernel_printed', 1)
    if got.shape != (H, W):
        rec.violation('viewshed.shape', 'shape %s' % (got.shape,), pay); return
    ew = (xs[-1] - xs[0]) / (W - 1); ns = (ys[-1] - ys[0]) / (H - 1)
    lo, hi, va, nblock = los.reference(Z.astype('float64'), vr, vc, obs, tgt, ew, ns)
    pay.update(reference_visible_strict=lo.astype(int), reference_visible_lenient=hi.astype(int))
    if got[vr, vc] != 180:
        rec.violation('viewshed.observer_cell', 'observer cell holds %r, expected 180' % got[vr, vc], pay); return
    vis = got != -1
    if ((got < 0) & (got != -1)).any() or (got > 180).any() or np.isnan(got).any():
        rec.violation('viewshed.value_range', 'values outside {-1} u [0,180]', pay); return
    viol = (vis & ~hi) | (~vis & lo)
    dc = int((lo != hi).sum())
    rec.ok('visibility.cells_judged', int((lo == hi).sum())); rec.dc('visibility.boundary_or_tie', dc)
    if viol.any():
        i = tuple(int(v) for v in np.argwhere(viol)[0])
        mech = 'viewshed.visible_but_blocked' if vis[i] else 'viewshed.invisible_but_clear'
        rec.violation(mech, 'cell %s reported %s; the line-of-sight model (both readings) says %s; observer %s, %d nearer cells span its bearing'
                      % (i, 'visible' if vis[i] else 'invisible', 'invisible' if vis[i] else 'visible', (vr, vc), int(nblock[i])), pay)
        return
    rec.ok('visibility')
    ab = vis & hi & (np.abs(got - va) > 1e-9)
    ab[vr, vc] = False
    if ab.any():
        i = tuple(int(v) for v in np.argwhere(ab)[0])
        rec.violation('viewshed.vertical_angle', 'visible cell %s holds %r, vertical angle from elevation difference and distance is %r' % (i, got[i], va[i]), pay)
        return
    rec.ok('vertical_angle')
    if (~vis).any():
        rec.ok('has_invisible_cell')
        if len(np.unique(Z)) > 1:
            rec.nontriv(Z.tobytes(), vr, vc, obs, tgt, cx, cy, ydesc)
    corner = (vr in (0, H - 1)) and (vc in (0, W - 1)); edge = (vr in (0, H - 1)) or (vc in (0, W - 1))
    if corner: rec.ok('observer.corner')
    elif edge: rec.ok('observer.edge')
    else: rec.ok('observer.interior')
    if cx != cy: rec.ok('cx!=cy')
    if obs < 0: rec.ok('observer_elev.negative')
    if tgt > 0: rec.ok('target_elev.positive')
    rec.cls('terrain.' + kind)
    if rec.mode == 'J': rec.ok('compiled_mode_cases')
    rec.mx('max_cells', H * W)
    if min(H, W) >= 12: rec.ok('terrain_side>=12')
    if sample:
        rec.sample(pay)
    # mirror relation (independent of the reference model): flipping the terrain and the observer left-right must flip the
    # viewshed; judged on cells outside the do-not-care band of both orientations
    if H * W <= 64 and (vr + vc + H) % 3 == 0:
        Zf = np.ascontiguousarray(Z[:, ::-1]); vcf = W - 1 - vc
        rf = xr.DataArray(Zf.copy(), dims=['y', 'x'], coords={'y': ys, 'x': xs}, attrs={'res': (cx, cy)})
        with contextlib.redirect_stdout(io.StringIO()):
            of = rec.call(viewshed, rf, x=float(xs[vcf]), y=float(ys[vr]), **kw)
        if hasattr(of, 'exc'):
            rec.violation('viewshed.raises', 'viewshed raised on the mirrored terrain: %r' % of, pay)
        else:
            gf = np.asarray(of.data, dtype='float64')[:, ::-1]
            lof, hif, vaf, _nb = los.reference(Zf.astype('float64'), vr, vcf, obs, tgt, ew, ns)
            sure = (lo == hi) & (lof[:, ::-1] == hif[:, ::-1])
            bad = sure & ((gf != -1) != vis)
            if bad.any():
                i = tuple(int(v) for v in np.argwhere(bad)[0])
                rec.violation('viewshed.mirror_asymmetry', 'cell %s is %s but its mirror image is %s in the viewshed of the mirrored terrain'
                              % (i, 'visible' if vis[i] else 'invisible', 'visible' if gf[i] != -1 else 'invisible'), dict(pay, mirrored=gf))
            else:
                rec.ok('mirror_relation')
    # identity of the raster (viewshed may widen the dtype, never change a value)
    if tuple(out.dims) != ('y', 'x') or not np.array_equal(out['x'].values, xs) or not np.array_equal(out['y'].values, ys):
        rec.violation('viewshed.identity', 'dims/coords of the result differ from the input', pay)


def check(rec, kind, idx, rng, tier):
    if kind == 'allobs':
        h, w, rep = map(int, idx.split(','))
        tk, Z = _terrain(rng, h, w)
        obs = float(rng.choice([0, 0, 1, 5, -1, 0.3])); tgt = float(rng.choice([0, 0, 1, 2.5]))
        cx, cy = float(rng.choice([1, 1, 0.5, 2.5, 0.3, 0.1])), float(rng.choice([1, 1, 3, 0.25, 0.3, 1 / 3600]))
        ydesc = bool(rng.random() < 0.5)
        for vr in range(h):
            for vc in range(w):
                _run_case(rec, Z, vr, vc, obs, tgt, cx, cy, ydesc, tk)
        rec.ok('all_observer_cells_of_a_raster')
        return
    maxs = 12 if tier == 'quick' else (20 if idx % 10 == 0 else 12)
    H, W = int(rng.integers(2, maxs + 1)), int(rng.integers(2, maxs + 1))
    if kind == 'mid':
        H, W = int(rng.integers(12, 21)), int(rng.integers(12, 21))
    tk, Z = _terrain(rng, H, W)
    cx, cy = float(rng.choice([1, 1, 0.5, 2.5, 30, 0.3, 0.1, 1 / 3600])), float(rng.choice([1, 1, 3, 0.25, 30, 0.3, 0.7, 1 / 3600]))
    where = str(rng.choice(['any', 'any', 'corner', 'edge']))
    if where == 'corner': vr, vc = int(rng.choice([0, H - 1])), int(rng.choice([0, W - 1]))
    elif where == 'edge':
        vr, vc = (int(rng.choice([0, H - 1])), int(rng.integers(0, W))) if rng.random() < 0.5 else (int(rng.integers(0, H)), int(rng.choice([0, W - 1])))
    else: vr, vc = int(rng.integers(0, H)), int(rng.integers(0, W))
    obs = float(rng.choice([0, 0, 1, 5, -1, 0.3, 20])); tgt = float(rng.choice([0, 0, 1, 2.5]))
    _run_case(rec, Z, vr, vc, obs, tgt, cx, cy, bool(rng.random() < 0.5), tk, sample=(len(rec.samples) < 1))
