"""C16 regions labels are exactly the connected components of equal value."""
import itertools

import numpy as np
import xarray as xr

from vlib import gen, tol
from vlib.refs import flood

PID = 'C16'
RULE = ("exhaustive: every raster over {0,1} with <= 12 cells (quick) / <= 16 cells (thorough) and over {0,1,2} and {0,1,NaN} "
        "with <= 9 (quick) / <= 10 cells, every HxW factorisation incl. 1xN, Nx1, both neighbourhoods; random: <= 20x20 with "
        "U/S/spiral/comb shapes, NaN cells, int32/int64/float32/float64, 2-4 values; oracle = BFS flood fill, label<->component "
        "bijection; non-trivial = distinct raster with a component that needs >= 1 provisional-label merge in a one-pass scan")
BUDGET = {'quick': 300, 'thorough': 1200}
FLOORS = {'quick': {'bijection': 50000, 'needs_merge': 5000, 'shape.1xN': 100, 'shape.Nx1': 100, 'nan_cells_stay_nan': 3000,
                    'conn8': 20000, 'conn4': 20000},
          'thorough': {'bijection': 500000, 'needs_merge': 50000}}
EXHAUSTIVE = {'quick': ['{0,1}^(HxW) for all H*W<=12', '{0,1,2}^(HxW) and {0,1,NaN}^(HxW) for all H*W<=9 (sampled 1/3 for H*W=9)', 'neighbourhood in {4,8}'],
              'thorough': ['{0,1}^(HxW) for all H*W<=16', '{0,1,2}^(HxW) and {0,1,NaN}^(HxW) for all H*W<=10', 'neighbourhood in {4,8}']}
ASSUMPTIONS = ['integer-valued data only (the kernel compares with isclose; distinct large floats are outside the property)',
               'reference = own BFS flood fill; scipy.ndimage.label used as a second opinion on a sample']


def _shapes(maxcells, mincells=1):
    out = []
    for n in range(mincells, maxcells + 1):
        for h in range(1, n + 1):
            if n % h == 0:
                out.append((h, n // h))
    return out


def plan(tier, seed):
    out = []
    m2 = 12 if tier == 'quick' else 16
    m3 = 9 if tier == 'quick' else 10
    for (h, w) in _shapes(m2):
        total = 2 ** (h * w)
        nblk = max(1, total // 2048)
        for b in range(nblk):
            out.append(('exh2', '%d,%d,%d,%d' % (h, w, b, nblk)))
    for (h, w) in _shapes(m3, 2):
        total = 3 ** (h * w)
        nblk = max(1, total // 2048)
        for b in range(nblk):
            out.append(('exh3', '%d,%d,%d,%d' % (h, w, b, nblk)))
            out.append(('exh3n', '%d,%d,%d,%d' % (h, w, b, nblk)))
    n = 4500 if tier == 'quick' else 40000
    out += [('rand', i) for i in range(n)]
    return out


def shard_filter(descs, shard, nshards, mode):
    # interleave so that every shard gets a mix of kinds
    return [d for i, d in enumerate(descs) if i % nshards == shard]


def _structured(rng, H, W):
    kind = str(rng.choice(['U', 'S', 'spiral', 'comb', 'checker', 'noise', 'rings', 'noise', 'noise', 'noise', 'noise3']))
    a = np.zeros((H, W))
    if kind == 'U':
        a[:, 0] = 1; a[:, -1] = 1; a[-1, :] = 1
        if rng.random() < 0.5: a = a[::-1].copy()
    elif kind == 'S':
        for i in range(0, H, 2):
            a[i, :] = 1
            if i + 1 < H:
                a[i + 1, -1 if (i // 2) % 2 == 0 else 0] = 1
    elif kind == 'spiral':
        t, b, l, r = 0, H - 1, 0, W - 1
        while t <= b and l <= r:
            a[t, l:r + 1] = 1
            a[t:b + 1, r] = 1
            if t < b: a[b, l:r + 1] = 1
            if l < r and t + 2 <= b: a[t + 2:b + 1, l] = 1
            t += 2; l += 2; b -= 2; r -= 2
            if t <= b and l - 1 >= 0 and l - 1 <= r + 2:
                a[t, l - 1] = 1
    elif kind == 'comb':
        a[-1, :] = 1; a[:, ::2] = 1
        if rng.random() < 0.5: a = a[::-1].copy()
    elif kind == 'checker':
        yy, xx = np.mgrid[0:H, 0:W]; a = ((yy + xx) % 2).astype(float)
    elif kind == 'rings':
        yy, xx = np.mgrid[0:H, 0:W]
        a = (np.minimum(np.minimum(yy, H - 1 - yy), np.minimum(xx, W - 1 - xx)) % 2).astype(float)
    elif kind == 'noise3':
        a = rng.integers(0, 3, (H, W)).astype(float)
    else:
        a = (rng.random((H, W)) < float(rng.choice([0.3, 0.4, 0.5, 0.6, 0.7]))).astype(float)
    if rng.random() < 0.5:
        a = a.T.copy() if a.T.shape == (H, W) else a
    if rng.random() < 0.5:
        # sprinkle a third value / flips
        m = rng.random((H, W)) < 0.1
        a[m] = rng.integers(0, 3, size=(H, W))[m]
    return kind, a


def _judge(rec, a, conn, out, pay_extra, sample=False):
    from_lib = np.asarray(out.data)
    comp, k = flood.components(a, conn)
    pay = dict(raster=a, neighborhood=conn, got=from_lib, reference_components=comp, **pay_extra)
    lab = from_lib.astype('float64')
    nanmask = np.isnan(a.astype('float64')) if a.dtype.kind == 'f' else np.zeros(a.shape, bool)
    bad = flood.bijection_violation(lab, comp)
    if bad:
        mech = 'regions.split' if bad.startswith('split') else ('regions.merged' if bad.startswith('merged') else 'regions.unlabelled')
        rec.violation(mech, 'regions(n=%d) on %s raster: %s' % (conn, a.shape, bad), pay)
        return
    rec.ok('bijection'); rec.ok('conn%d' % conn)
    if (lab[~nanmask] > 0).all():
        rec.ok('labels_positive')
    else:
        rec.violation('regions.nonpositive_label', 'label <= 0 on a non-NaN cell', pay)
    if nanmask.any():
        if np.isnan(lab[nanmask]).all():
            rec.ok('nan_cells_stay_nan', int(nanmask.sum()))
        else:
            rec.violation('regions.nan_labelled', 'NaN cell received a label', pay)
    merges = flood.merge_depth_classes(a, conn)
    if merges:
        rec.ok('needs_merge')
        rec.nontriv(a.shape, conn, a.tobytes())
        rec.mx('max_provisional_merges', merges)
    rec.mx('max_components', k)
    if a.shape[0] == 1: rec.ok('shape.1xN')
    if a.shape[1] == 1: rec.ok('shape.Nx1')
    if sample:
        rec.sample(pay)


def check(rec, kind, idx, rng, tier):
    from xrspatial.zonal import regions
    if kind.startswith('exh'):
        h, w, b, nblk = map(int, idx.split(','))
        base = 2 if kind == 'exh2' else 3
        total = base ** (h * w)
        lo = total * b // nblk; hi = total * (b + 1) // nblk
        step = 1
        if tier == 'quick' and base == 3 and h * w == 9:
            step = 3
        symbols = np.array([0.0, 1.0, 2.0]) if kind != 'exh3n' else np.array([0.0, 1.0, np.nan])
        dt = 'float64' if kind == 'exh3n' else ('int64' if (b % 2 == 0) else 'float64')
        for code in range(lo + (b % step), hi, step):
            digits = []
            c = code
            for _ in range(h * w):
                digits.append(c % base); c //= base
            a = symbols[np.array(digits)].reshape(h, w).astype(dt)
            r = xr.DataArray(a, dims=['y', 'x'])
            for conn in (4, 8):
                rec.evaluation()
                out = rec.call(regions, r, neighborhood=conn)
                if hasattr(out, 'exc'):
                    rec.violation('regions.raises', 'regions raised %r' % out, dict(raster=a, neighborhood=conn)); continue
                _judge(rec, a, conn, out, {}, sample=(code == lo and b == 0 and h == 3 and conn == 4))
        return
    # random / structured
    H, W = int(rng.integers(1, 21)), int(rng.integers(1, 21))
    if rng.random() < 0.5:
        H, W = int(rng.integers(10, 25)), int(rng.integers(10, 25))
    if rng.random() < 0.1:
        H = 1
    elif rng.random() < 0.1:
        W = 1
    skind, a = _structured(rng, H, W)
    dt = str(rng.choice(['int32', 'int64', 'float32', 'float64']))
    scale = float(rng.choice([1, 1, 7, 1000]))
    a = (a * scale + float(rng.choice([0, 0, -3, 50]))).astype(dt)
    if a.dtype.kind == 'f' and rng.random() < 0.5:
        a = gen.sprinkle(a, rng, float(rng.choice([0.05, 0.2])), where='random').astype(dt)
    geom = gen.random_geom(rng)
    attrs = {'res': (geom['cx'], geom['cy']), 'nested': {'k': [1]}}
    r = gen.mk(gen.rand_layout(a, rng), attrs=attrs, name='in', extra=bool(rng.random() < 0.3), **geom)
    for conn in (4, 8):
        rec.evaluation()
        nm = {} if rng.random() < 0.5 else {'name': 'lbl'}
        out = rec.call(regions, r, neighborhood=conn, **nm)
        pe = dict(structure=skind, dtype=dt)
        if hasattr(out, 'exc'):
            rec.violation('regions.raises', 'regions raised %r' % out, dict(raster=a, neighborhood=conn, **pe)); continue
        rec.cls('random.' + skind); rec.cls('dtype.' + dt)
        _judge(rec, a, conn, out, pe, sample=(idx == 0 and conn == 8))
        # identity of the raster
        ok = out.shape == r.shape and tuple(out.dims) == tuple(r.dims) and dict(out.attrs) == attrs and \
            all(c in out.coords and np.array_equal(out[c].values, r[c].values) for c in r.coords)
        if ok:
            rec.ok('shape_coords_attrs')
        else:
            rec.violation('regions.identity', 'shape/dims/coords/attrs of the result differ from the input', dict(raster=a, neighborhood=conn))
        # second opinion
        if idx % 10 == 0:
            from scipy import ndimage
            st = ndimage.generate_binary_structure(2, 1 if conn == 4 else 2)
            comp, _ = flood.components(a, conn)
            fa = a.astype('float64')
            for v in np.unique(fa[~np.isnan(fa)]):
                lab, _n = ndimage.label(fa == v, structure=st)
                m = fa == v
                pairs = set(zip(lab[m].tolist(), comp[m].tolist()))
                if len(pairs) != len({p[0] for p in pairs}) or len(pairs) != len({p[1] for p in pairs}):
                    raise AssertionError('reference flood fill disagrees with scipy.ndimage.label')
            rec.ok('reference_cross_checked')
