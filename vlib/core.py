"""Core of the runtime-monitoring framework: recorder, worker loop, orchestrator.

A property module (vlib/props/cNN.py) exposes

    PID = 'C18'
    RULE = "<how cases are generated and what makes one non-trivial>"
    def plan(tier, seed)          -> list of (kind, idx) descriptors (cheap, no arrays)
    def check(rec, kind, idx, rng, tier)   -> runs the real code, feeds the recorder
    FLOORS = {tier: {counter_name: minimum}}   # below => INCONCLUSIVE
    (optional) MODES = {tier: [('J', share), ('I', share)]}

Workers are plain subprocesses (one per shard); every case is journaled before
it is executed; the orchestrator aggregates worker result files, classifies
violations against known_findings.json, writes the evidence file and decides
the exit code (0 held, 1 violation, 2 inconclusive).
"""
import hashlib
import importlib
import json
import os
import subprocess
import sys
import time
import traceback

import numpy as np

VERIF = os.path.dirname(os.path.dirname(os.path.abspath(__file__)))
REPO = os.environ.get('VERIF_REPO', '/repo')
PY = os.environ.get('VERIF_PYTHON', '/venv/bin/python')
MAX_VIOL_PER_MECH = 5


def stable_hash(*parts):
    h = hashlib.blake2b(repr(parts).encode(), digest_size=8).digest()
    return int.from_bytes(h, 'big')


def jsonable(o, maxel=400):
    """Best-effort conversion of case payloads to JSON (arrays inline)."""
    if isinstance(o, dict):
        return {str(k): jsonable(v, maxel) for k, v in o.items()}
    if isinstance(o, (list, tuple, set, frozenset)):
        return [jsonable(v, maxel) for v in o]
    if isinstance(o, np.ndarray):
        if o.size > maxel:
            return {'ndarray': 'omitted', 'shape': list(o.shape), 'dtype': str(o.dtype)}
        return {'ndarray': jsonable(o.tolist(), maxel), 'dtype': str(o.dtype),
                'shape': list(o.shape)}
    if isinstance(o, (np.integer,)):
        return int(o)
    if isinstance(o, (np.floating, float)):
        f = float(o)
        if f != f:
            return 'NaN'
        if f in (float('inf'), float('-inf')):
            return 'Infinity' if f > 0 else '-Infinity'
        return f
    if isinstance(o, (np.bool_,)):
        return bool(o)
    if isinstance(o, (str, int, bool)) or o is None:
        return o
    if isinstance(o, bytes):
        return o.hex()
    return repr(o)[:300]


class Raised:
    """Returned by Rec.call when the observed function raised."""

    def __init__(self, exc):
        self.exc = exc
        self.type = type(exc).__name__
        self.msg = str(exc)[:300]
        self.tb = ''.join(traceback.format_exception(type(exc), exc, exc.__traceback__))[-1500:]

    def __repr__(self):
        return 'Raised(%s: %s)' % (self.type, self.msg)


class Rec:
    def __init__(self, pid, tier, seed, shard, outdir, mode='J'):
        self.pid, self.tier, self.seed, self.shard, self.outdir = pid, tier, seed, shard, outdir
        self.mode = mode
        self.counters = {}          # clause evaluations (oracle clauses that were judged and held)
        self.classes = {}           # input-class / coverage counters
        self.dontcare = {}
        self.rejected = {}
        self.maxima = {}
        self.sets = {}              # named sets of small hashables (distinct counts)
        self.nontrivial = set()
        self.samples = []
        self.violations = []
        self.viol_count = {}
        self.evaluations = 0
        self.cur = None
        self.journal = open(os.path.join(outdir, 'journal-%d.txt' % shard), 'w')
        self.harness_errors = []
        self.skipped_for_time = 0

    # -- case lifecycle -------------------------------------------------
    def begin(self, kind, idx):
        self.cur = (kind, idx)
        self.journal.write('%s %s\n' % (kind, idx))
        self.journal.flush()

    def evaluation(self, n=1):
        self.evaluations += n

    # -- counters -------------------------------------------------------
    def ok(self, clause, n=1):
        self.counters[clause] = self.counters.get(clause, 0) + int(n)

    def cls(self, name, n=1):
        self.classes[name] = self.classes.get(name, 0) + int(n)

    def dc(self, name, n=1):
        self.dontcare[name] = self.dontcare.get(name, 0) + int(n)

    def rej(self, name, n=1):
        self.rejected[name] = self.rejected.get(name, 0) + int(n)

    def mx(self, name, v):
        if v > self.maxima.get(name, float('-inf')):
            self.maxima[name] = v

    def add(self, setname, item, cap=100000):
        s = self.sets.setdefault(setname, set())
        if len(s) < cap:
            s.add(item)

    def nontriv(self, *key):
        self.nontrivial.add(stable_hash(*key))

    def sample(self, obj, cap=3):
        if len(self.samples) < cap:
            self.samples.append(jsonable(obj))

    # -- observed calls ---------------------------------------------------
    def call(self, fn, *a, **k):
        try:
            return fn(*a, **k)
        except Exception as e:  # the observed function raised
            return Raised(e)

    # -- violations -------------------------------------------------------
    def violation(self, mech, what, payload=None):
        """mech: mechanism classifier key; what: one-line description."""
        n = self.viol_count.get(mech, 0)
        self.viol_count[mech] = n + 1
        if n >= MAX_VIOL_PER_MECH:
            return
        kind, idx = self.cur if self.cur else ('?', -1)
        rdir = os.path.join(VERIF, 'replays', self.pid)
        os.makedirs(rdir, exist_ok=True)
        name = '%s-%s-%s-s%d-%s-%d.json' % (self.pid, kind, idx, self.seed, mech.replace('.', '_'), n)
        name = name.replace('/', '_').replace(' ', '')
        path = os.path.join(rdir, name)
        doc = {'property': self.pid, 'mech': mech, 'what': what, 'tier': self.tier,
               'seed': self.seed, 'kind': kind, 'idx': idx, 'mode': self.mode,
               'payload': jsonable(payload)}
        with open(path, 'w') as f:
            json.dump(doc, f, indent=1)
        self.violations.append({'mech': mech, 'what': what[:400], 'replay': os.path.relpath(path, VERIF),
                                'kind': kind, 'idx': idx})

    def dump(self):
        out = {
            'shard': self.shard, 'mode': self.mode,
            'evaluations': self.evaluations, 'counters': self.counters, 'classes': self.classes,
            'dontcare': self.dontcare, 'rejected': self.rejected, 'maxima': self.maxima,
            'sets': {k: sorted(map(str, v))[:20000] for k, v in self.sets.items()},
            'nontrivial': sorted(self.nontrivial), 'samples': self.samples,
            'violations': self.violations, 'viol_count': self.viol_count,
            'harness_errors': self.harness_errors, 'skipped_for_time': self.skipped_for_time,
        }
        with open(os.path.join(self.outdir, 'result-%d.json' % self.shard), 'w') as f:
            json.dump(out, f)


# ----------------------------------------------------------------------
# worker
# ----------------------------------------------------------------------

def worker_main(argv):
    import argparse
    ap = argparse.ArgumentParser()
    ap.add_argument('pid')
    ap.add_argument('--tier', default='quick')
    ap.add_argument('--seed', type=int, default=0)
    ap.add_argument('--shard', type=int, default=0)
    ap.add_argument('--nshards', type=int, default=1)
    ap.add_argument('--out', required=True)
    ap.add_argument('--budget', type=float, default=1e9)
    ap.add_argument('--mode', default='J')
    ap.add_argument('--replay', default=None)
    a = ap.parse_args(argv)
    import faulthandler
    faulthandler.enable()
    import warnings
    warnings.simplefilter('ignore')
    t0 = time.time()
    import xrspatial
    assert os.path.realpath(os.path.dirname(os.path.dirname(xrspatial.__file__))) == os.path.realpath(REPO), \
        'xrspatial resolves to %s, not %s' % (xrspatial.__file__, REPO)
    mod = importlib.import_module('vlib.props.' + a.pid.lower())
    rec = Rec(a.pid, a.tier, a.seed, a.shard, a.out, a.mode)
    if a.replay:
        doc = json.load(open(a.replay))
        descs = [(doc['kind'], doc['idx'])]
        a.seed = rec.seed = doc['seed']
        a.tier = rec.tier = doc.get('tier', a.tier)
    else:
        descs = list(mod.plan(a.tier, a.seed))
        if hasattr(mod, 'shard_filter'):
            descs = mod.shard_filter(descs, a.shard, a.nshards, a.mode)
        else:
            descs = [d for i, d in enumerate(descs) if i % a.nshards == a.shard]
    if hasattr(mod, 'setup_worker'):
        mod.setup_worker(rec)
    for kind, idx in descs:
        if time.time() - t0 > a.budget:
            rec.skipped_for_time += 1
            continue
        rng = np.random.default_rng(stable_hash(a.seed, a.pid, kind, idx))
        rec.begin(kind, idx)
        tc = time.time()
        try:
            mod.check(rec, kind, idx, rng, a.tier)
        except Exception:
            rec.harness_errors.append({'kind': kind, 'idx': idx, 'tb': traceback.format_exc()[-3000:]})
        rec.mx('slowest_case_seconds', round(time.time() - tc, 1))
    rec.mx('slowest_worker_seconds', round(time.time() - t0, 1))
    if hasattr(mod, 'finish_worker'):
        try:
            mod.finish_worker(rec)
        except Exception:
            rec.harness_errors.append({'kind': 'finish', 'idx': -1, 'tb': traceback.format_exc()[-3000:]})
    rec.begin('done', 0)
    rec.dump()
    return 0


# ----------------------------------------------------------------------
# orchestrator
# ----------------------------------------------------------------------

def load_known():
    p = os.path.join(VERIF, 'known_findings.json')
    if not os.path.exists(p):
        return []
    return json.load(open(p)).get('findings', [])


def worker_env(mode, extra=None):
    env = dict(os.environ)
    env['PYTHONPATH'] = REPO + os.pathsep + VERIF
    env['PYTHONHASHSEED'] = '0'
    env['NUMBA_BOUNDSCHECK'] = '1'
    env.pop('NUMBA_DISABLE_JIT', None)
    if mode == 'I':
        env['NUMBA_DISABLE_JIT'] = '1'
    for v in ('OMP_NUM_THREADS', 'MKL_NUM_THREADS', 'OPENBLAS_NUM_THREADS'):
        env[v] = '1'
    env['NUMBA_CACHE_DIR'] = os.path.join(VERIF, '.work', 'numba-cache-unused')
    env['PYTHONDONTWRITEBYTECODE'] = '1'
    env['XRSPATIAL_VERIF'] = '1'
    if extra:
        env.update(extra)
    return env


def orchestrate(pid, tier, seed, jobs=None, replay=None):
    t0 = time.time()
    mod = importlib.import_module('vlib.props.' + pid.lower())
    jobs = jobs or int(os.environ.get('VERIF_JOBS', '16'))
    outdir = os.path.join(VERIF, '.work', '%s-%s-%d-%d' % (pid, tier, seed, os.getpid()))
    os.makedirs(outdir, exist_ok=True)
    modes = getattr(mod, 'MODES', {}).get(tier, [('J', jobs)])
    budget = getattr(mod, 'BUDGET', {}).get(tier, 150 if tier == 'quick' else 1500)
    watchdog = budget * 3 + 300
    procs = []
    if replay:
        doc = json.load(open(replay))
        modes = [(doc.get('mode', 'J'), 1)]
    shard = 0
    total = sum(n for _, n in modes)
    for mode, n in modes:
        for k in range(n):
            cmd = [PY, '-X', 'faulthandler', '-m', 'vlib.worker', pid, '--tier', tier, '--seed', str(seed),
                   '--shard', str(k), '--nshards', str(n), '--out', outdir, '--budget', str(budget),
                   '--mode', mode]
            if replay:
                cmd += ['--replay', replay]
            # shard ids must be unique across modes for file names
            cmd[cmd.index('--shard') + 1] = str(k)
            env = worker_env(mode, getattr(mod, 'ENV', None))
            env['VERIF_SHARD_UID'] = str(shard)
            log = open(os.path.join(outdir, 'log-%s-%d.txt' % (mode, k)), 'w')
            sub = os.path.join(outdir, 'm%s' % mode)
            os.makedirs(sub, exist_ok=True)
            cmd[cmd.index('--out') + 1] = sub
            p = subprocess.Popen(cmd, cwd=VERIF, env=env, stdout=log, stderr=subprocess.STDOUT)
            procs.append((mode, k, p, log, sub))
            shard += 1
    inconclusive = []
    crashed = []
    deadline = time.time() + watchdog
    for mode, k, p, log, sub in procs:
        try:
            rc = p.wait(timeout=max(1, deadline - time.time()))
        except subprocess.TimeoutExpired:
            p.kill()
            p.wait()
            rc = None
            inconclusive.append('watchdog: worker %s/%d killed after %ds' % (mode, k, watchdog))
        log.close()
        if rc not in (0, None):
            # died: attribute to the case in flight
            jpath = os.path.join(sub, 'journal-%d.txt' % k)
            last = ''
            if os.path.exists(jpath):
                lines = open(jpath).read().strip().splitlines()
                last = lines[-1] if lines else ''
            tail = open(os.path.join(outdir, 'log-%s-%d.txt' % (mode, k))).read()[-2500:]
            crashed.append({'mode': mode, 'shard': k, 'rc': rc, 'case': last, 'tail': tail})
    # aggregate
    agg = {'evaluations': 0, 'counters': {}, 'classes': {}, 'dontcare': {}, 'rejected': {}, 'maxima': {},
           'sets': {}, 'nontrivial': set(), 'samples': [], 'violations': [], 'viol_count': {},
           'harness_errors': [], 'skipped_for_time': 0, 'per_mode_evaluations': {}}
    for mode, k, p, log, sub in procs:
        rp = os.path.join(sub, 'result-%d.json' % k)
        if not os.path.exists(rp):
            continue
        r = json.load(open(rp))
        agg['evaluations'] += r['evaluations']
        agg['per_mode_evaluations'][mode] = agg['per_mode_evaluations'].get(mode, 0) + r['evaluations']
        for key in ('counters', 'classes', 'dontcare', 'rejected', 'viol_count'):
            for c, v in r[key].items():
                agg[key][c] = agg[key].get(c, 0) + v
        for c, v in r['maxima'].items():
            agg['maxima'][c] = max(agg['maxima'].get(c, float('-inf')), v)
        for c, v in r['sets'].items():
            agg['sets'].setdefault(c, set()).update(v)
        agg['nontrivial'].update(r['nontrivial'])
        if len(agg['samples']) < 4:
            agg['samples'].extend(r['samples'][:1])
        agg['violations'].extend(r['violations'])
        agg['harness_errors'].extend(r['harness_errors'])
        agg['skipped_for_time'] += r['skipped_for_time']
    if not agg['samples']:
        # no worker recorded a written-out case (e.g. the sampled descriptor was outside the domain): fall back to the
        # descriptors of cases that were actually executed, taken from the journals
        for mode, k, p, log, sub in procs:
            jp = os.path.join(sub, 'journal-%d.txt' % k)
            if os.path.exists(jp):
                lines = [l for l in open(jp).read().splitlines() if l and not l.startswith('done')]
                for l in lines[:2]:
                    agg['samples'].append({'case_descriptor': l, 'seed': seed, 'mode': mode,
                                           'note': 'inputs are regenerated from (seed, property, kind, idx); see vlib/props/%s.py' % pid.lower()})
            if len(agg['samples']) >= 3:
                break
    # worker crashes: a native crash on an in-domain case is a violation (memory safety);
    # a Python-level death of the worker is a harness problem => inconclusive
    for c in crashed:
        if c['rc'] is not None and c['rc'] < 0:
            rdir = os.path.join(VERIF, 'replays', pid)
            os.makedirs(rdir, exist_ok=True)
            path = os.path.join(rdir, '%s-crash-%s-%d.json' % (pid, c['mode'], c['shard']))
            json.dump({'property': pid, 'mech': 'native-crash', 'what': 'worker died with signal %d' % -c['rc'],
                       'case': c['case'], 'seed': seed, 'tier': tier, 'log_tail': c['tail']}, open(path, 'w'), indent=1)
            agg['violations'].append({'mech': 'native-crash', 'what': 'worker died with signal %d in case %s'
                                      % (-c['rc'], c['case']), 'replay': os.path.relpath(path, VERIF)})
            agg['viol_count']['native-crash'] = agg['viol_count'].get('native-crash', 0) + 1
        else:
            inconclusive.append('worker %s/%d exited rc=%s in case %r: %s' % (c['mode'], c['shard'], c['rc'], c['case'],
                                                                             c['tail'][-400:].replace('\n', ' | ')))
    for he in agg['harness_errors'][:5]:
        inconclusive.append('harness error in %s/%s: %s' % (he['kind'], he['idx'], he['tb'][-600:].replace('\n', ' | ')))
    # floors
    floors = getattr(mod, 'FLOORS', {}).get('quick', {})
    if tier == 'thorough':
        # the thorough tier must reach every deciding clause at least twice as often as the quick tier's floor
        floors = {k: 2 * v for k, v in floors.items()}
    if not replay:
        for name, floor in floors.items():
            have = agg['counters'].get(name, agg['classes'].get(name, 0))
            if name == 'evaluations':
                have = agg['evaluations']
            if name == 'distinct_nontrivial':
                have = len(agg['nontrivial'])
            if have < floor:
                inconclusive.append('counter %s=%d below floor %d' % (name, have, floor))
        # don't-care share
        for name, share_of in getattr(mod, 'DONTCARE_OF', {}).items():
            dcv = agg['dontcare'].get(name, 0)
            judged = agg['counters'].get(share_of, 0)
            if dcv + judged > 0 and dcv > 0.2 * (dcv + judged):
                inconclusive.append("don't-care band %s holds %d of %d" % (name, dcv, dcv + judged))
    # classify violations
    known = [k for k in load_known() if k.get('property') == pid and k.get('status') == 'known']
    known_keys = {k['key']: k for k in known}
    new_viol = []
    known_hit = {}
    for v in agg['violations']:
        if v['mech'] in known_keys:
            known_hit.setdefault(v['mech'], []).append(v)
        else:
            new_viol.append(v)
    for key, n in agg['viol_count'].items():
        pass
    wall = time.time() - t0
    ev = {
        'property_id': pid, 'tier': tier, 'seed': int(seed), 'level': 'exploration',
        'coverage': {
            'evaluations': int(agg['evaluations']),
            'distinct_nontrivial': len(agg['nontrivial']),
            'rule': getattr(mod, 'RULE', ''),
            'samples': agg['samples'] or [],
            'oracle_clauses_held': dict(sorted(agg['counters'].items())),
            'input_classes': dict(sorted(agg['classes'].items())),
            'dont_care': dict(sorted(agg['dontcare'].items())),
            'rejected_outside_domain': dict(sorted(agg['rejected'].items())),
            'maxima': dict(sorted(agg['maxima'].items())),
            'distinct': {k: len(v) for k, v in sorted(agg['sets'].items())},
            'distinct_examples': {k: sorted(v)[:12] for k, v in sorted(agg['sets'].items())},
            'evaluations_per_mode': agg['per_mode_evaluations'],
            'workers': [{'mode': m, 'n': n} for m, n in modes],
            'skipped_for_time': agg['skipped_for_time'],
            'exhaustive_subspaces': getattr(mod, 'EXHAUSTIVE', {}).get(tier, []),
            'exhaustive': False,
            'violation_counts_by_mechanism': agg['viol_count'],
            'known_findings_seen': {k: len(v) for k, v in known_hit.items()},
            'verdict': None,
            'inconclusive_reasons': inconclusive,
        },
        'assumptions': getattr(mod, 'ASSUMPTIONS', []),
        'wall_s': round(wall, 2),
        'violations': len(new_viol),
    }
    if new_viol:
        verdict, rc = 'VIOLATED', 1
    elif inconclusive:
        verdict, rc = 'INCONCLUSIVE', 2
    else:
        verdict, rc = 'HELD on %d executions' % agg['evaluations'], 0
    ev['coverage']['verdict'] = verdict
    if not replay:
        evdir = os.environ.get('VERIF_EVIDENCE_DIR', os.path.join(VERIF, 'evidence'))
        os.makedirs(evdir, exist_ok=True)
        with open(os.path.join(evdir, pid + '.json'), 'w') as f:
            json.dump(ev, f, indent=1, sort_keys=False)
    # report
    print('%s tier=%s seed=%d evaluations=%d distinct_nontrivial=%d wall=%.1fs modes=%s'
          % (pid, tier, seed, agg['evaluations'], len(agg['nontrivial']), wall, modes))
    print('  clauses held: ' + ', '.join('%s=%d' % kv for kv in sorted(agg['counters'].items())))
    if agg['dontcare']:
        print("  don't-care: " + ', '.join('%s=%d' % kv for kv in sorted(agg['dontcare'].items())))
    if agg['rejected']:
        print('  rejected (outside domain): ' + ', '.join('%s=%d' % kv for kv in sorted(agg['rejected'].items())))
    for key, vs in known_hit.items():
        print('KNOWN-FINDING: property=%s %s (%d occurrences this run; e.g. %s)'
              % (pid, known_keys[key].get('what', key), agg['viol_count'].get(key, len(vs)), vs[0]['what'][:200]))
    seen = set()
    for v in new_viol:
        if (v['mech']) in seen:
            continue
        seen.add(v['mech'])
        print('VIOLATION property=%s replay=%s' % (pid, v['replay']))
        print('  mechanism=%s count=%d: %s' % (v['mech'], agg['viol_count'].get(v['mech'], 1), v['what']))
    if rc == 2:
        for r in inconclusive[:10]:
            print('INCONCLUSIVE property=%s reason=%s' % (pid, r))
    print('VERDICT %s: %s' % (pid, verdict))
    # cleanup
    if rc == 0 and not os.environ.get('VERIF_KEEP'):
        import shutil
        shutil.rmtree(outdir, ignore_errors=True)
    return rc
