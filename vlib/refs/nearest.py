"""Brute-force nearest-target reference for proximity / allocation / direction (C06, C07)."""
import math

import numpy as np

R_EARTH = 6378137.0


def target_mask(img, target_values):
    a = np.asarray(img, dtype='float64')
    if target_values is None or len(target_values) == 0:
        with np.errstate(invalid='ignore'):
            return (a != 0) & np.isfinite(a)
    return np.isin(a, np.asarray(target_values, dtype='float64'))


def dist_matrix(xs, ys, tx, ty, metric):
    """distances from every cell (grids xs, ys of shape HxW) to targets with coordinates (tx, ty) (1-D) -> (H, W, T) float64"""
    X = xs[..., None]; Y = ys[..., None]
    if metric == 'EUCLIDEAN':
        return np.sqrt((X - tx) ** 2 + (Y - ty) ** 2)
    if metric == 'MANHATTAN':
        return np.abs(X - tx) + np.abs(Y - ty)
    if metric == 'GREAT_CIRCLE':
        lat1, lon1, lat2, lon2 = np.radians(Y), np.radians(X), np.radians(ty), np.radians(tx)
        a = np.sin((lat2 - lat1) / 2) ** 2 + np.cos(lat1) * np.cos(lat2) * np.sin((lon2 - lon1) / 2) ** 2
        return R_EARTH * 2 * np.arcsin(np.sqrt(np.clip(a, 0, 1)))
    raise ValueError(metric)


def bearing_matrix(xs, ys, tx, ty):
    """library convention: 0 = self, 90 = +x, 180 = +y, 270 = -x, 360 = -y (coordinate space)"""
    X = xs[..., None]; Y = ys[..., None]
    dx = tx - X; dy = ty - Y
    ang = np.degrees(np.arctan2(-dy, dx))
    b = (90.0 - ang) % 360.0
    b = np.where(b == 0, 360.0, b)
    b = np.where((dx == 0) & (dy == 0), 0.0, b)
    return b


def circ_diff(a, b):
    d = np.abs(a - b) % 360.0
    return np.minimum(d, 360.0 - d)
