"""C06 Proximity, allocation, direction name one real target, never underestimated."""
import sys

import numpy as np
import xarray as xr

from vlib import gen, tol
from vlib.refs import nearest as nr

PID = 'C06'
RULE = ("(i) public API: rasters up to 12x12 with random target layouts (sparse..dense, single target, none), values incl. NaN/inf, "
        "default targets or explicit target_values, metrics EUCLIDEAN/MANHATTAN/GREAT_CIRCLE (lon/lat grids), max_distance from a "
        "fraction of a cell to beyond the diagonal and unbounded, ascending/descending and non-square coordinates; proximity, "
        "allocation, direction called with identical arguments and judged as a triple. (ii) captured kernel: the closure the public "
        "function compiles is captured (module-level ngjit wrapped) and driven over EVERY target layout of every shape with "
        "min(H,W) <= 3 and H*W <= 12 (thorough 16), target cells carrying unique ids so allocation names the chosen target; "
        "non-trivial = distinct (layout, geometry, parameters) with >= 2 targets and a non-target cell")
BUDGET = {'quick': 300, 'thorough': 1200}
MODES = {'quick': [('J', 8), ('I', 8)], 'thorough': [('J', 8), ('I', 8)]}
FLOORS = {'quick': {'triple_names_a_real_target': 300, 'exhaustive.exact': 30000, 'never_underestimated': 300, 'max_distance.respected': 100,
                    'single_target.exact': 30, 'unbounded.no_nan': 100, 'no_target_in_reach.nan': 80, 'metric.GREAT_CIRCLE': 40,
                    'metric.MANHATTAN': 60, 'target_values.explicit': 60, 'target_values_not_float32_representable': 30},
          'thorough': {'triple_names_a_real_target': 3000, 'exhaustive.exact': 400000}}
EXHAUSTIVE = {'quick': ['all 2^(H*W)-1 target layouts for every shape with min(H,W)<=3 and H*W<=12, metrics EUCLIDEAN and MANHATTAN, modes proximity/allocation/direction (captured kernel)'],
              'thorough': ['all 2^(H*W)-1 target layouts for every shape with min(H,W)<=3 and H*W<=16, metrics EUCLIDEAN and MANHATTAN, unit and non-square cell sizes']}
ASSUMPTIONS = ['distances are compared at 4 eps32 relative (the library stores float32 distances and re-derives them through a square and a square root)',
               'with a bounded max_distance the statement only requires NaN where no target is in reach; a NaN cell with a target in reach is counted, not judged',
               'the GDAL-style four-sweep algorithm is exact for all layouts only when min(H,W) <= 3 (measured); larger rasters are judged by the never-underestimated / names-a-real-target clauses',
               'bearing convention pinned by the repository test test_calc_direction: 0 self, 90 +x, 180 +y, 270 -x, 360 -y']
E32 = tol.EPS32
_KERNELS = {}


def _shapes(maxcells):
    out = []
    for h in range(1, maxcells + 1):
        for w in range(1, maxcells + 1):
            if h * w <= maxcells and min(h, w) <= 3:
                out.append((h, w))
    return out


def plan(tier, seed):
    out = []
    maxc = 12 if tier == 'quick' else 16
    for (h, w) in _shapes(maxc):
        total = 2 ** (h * w)
        nblk = max(1, total // 1024)
        for metric in ('EUCLIDEAN', 'MANHATTAN'):
            for b in range(nblk):
                out.append(('exh', '%d,%d,%d,%d,%s' % (h, w, b, nblk, metric)))
    n = 850 if tier == 'quick' else 12000
    out += [('api', i) for i in range(n)]
    return out


def shard_filter(descs, shard, nshards, mode):
    exh = [d for d in descs if d[0] == 'exh']; api = [d for d in descs if d[0] == 'api']
    if mode == 'I':
        # interpreted kernels: no per-call JIT (the public functions re-compile a closure on every call), ~30x more API cases per second
        sel = [d for i, d in enumerate(api) if i % 10 != 0]
        return [d for i, d in enumerate(sel) if i % nshards == shard]
    # compiled mode: exhaustive blocks of one metric stay on the same workers (each captured kernel costs a compile)
    mine = []
    half = max(1, nshards // 2)
    for i, d in enumerate(exh):
        group = 0 if d[1].split(',')[4] == 'EUCLIDEAN' else 1
        if nshards == 1 or (shard % 2 == group and (i // 2) % half == shard // 2):
            mine.append(d)
    api_j = [d for i, d in enumerate(api) if i % 10 == 0]       # each compiled API case costs three closure compiles
    mine += [d for i, d in enumerate(api_j) if i % nshards == shard]
    return mine


def _capture(metric, mode):
    """Returns the compiled closure the public function builds for (metric, unbounded max_distance, default targets)."""
    key = (metric, mode)
    if key in _KERNELS:
        return _KERNELS[key]
    import xrspatial
    P = sys.modules['xrspatial.proximity']
    captured = []
    orig = P.ngjit

    def rec(f):
        d = orig(f); captured.append(d); return d
    P.ngjit = rec
    try:
        f = {'proximity': xrspatial.proximity, 'allocation': xrspatial.allocation, 'direction': xrspatial.direction}[mode]
        f(xr.DataArray(np.eye(2), dims=['y', 'x'], coords={'y': [1.0, 0.0], 'x': [0.0, 1.0]}), distance_metric=metric)
    finally:
        P.ngjit = orig
    _KERNELS[key] = captured[-1] if captured else None
    return _KERNELS[key]


def judge_triple(rec, img, xs, ys, tvals, maxd, metric, P, A, D, pay, exact=False):
    """img: data; xs, ys: coordinate grids; P, A, D: outputs (float arrays). Returns True if all clauses held."""
    H, W = img.shape
    T = nr.target_mask(img, tvals)
    a64 = np.asarray(img, dtype='float64')
    P = np.asarray(P, dtype='float64'); A = np.asarray(A, dtype='float64'); D = np.asarray(D, dtype='float64')
    pay = dict(pay, proximity=P, allocation=A, direction=D)
    for nm, arr in (('proximity', P), ('allocation', A), ('direction', D)):
        if arr.shape != (H, W):
            rec.violation('proximity.shape', '%s output shape %s' % (nm, arr.shape), pay); return False
    nanP, nanA, nanD = np.isnan(P), np.isnan(A), np.isnan(D)
    if (nanP != nanA).any() or (nanP != nanD).any():
        i = tuple(int(v) for v in np.argwhere((nanP != nanA) | (nanP != nanD))[0])
        rec.violation('proximity.nan_inconsistent', 'cell %s: proximity %r allocation %r direction %r (NaN in some outputs only)' % (i, P[i], A[i], D[i]), pay)
        return False
    if not T.any():
        if nanP.all():
            rec.ok('no_target.all_nan'); return True
        rec.violation('proximity.value_without_target', 'non-NaN output although the raster has no target cell', pay); return False
    ty, tx = np.nonzero(T)
    dm = nr.dist_matrix(xs, ys, xs[ty, tx], ys[ty, tx], metric)          # (H, W, T)
    bm = nr.bearing_matrix(xs, ys, xs[ty, tx], ys[ty, tx])
    tv = a64[ty, tx].astype('float32').astype('float64')        # allocation is a float32 raster: it reports the target's value rounded to float32
    a64f = a64.astype('float32').astype('float64')
    dstar = dm.min(axis=2)
    tl = 4 * E32 * np.maximum(dstar, 1e-30) + 1e-30
    # targets: 0 / own value / 0
    if (P[T] != 0).any() or (D[T] != 0).any() or (A[T] != a64f[T]).any():
        i = tuple(int(v) for v in np.argwhere(T & ((P != 0) | (D != 0) | (A != a64f)))[0])
        rec.violation('proximity.target_cell', 'target cell %s: proximity %r allocation %r (own value %r) direction %r' % (i, P[i], A[i], a64[i], D[i]), pay)
        return False
    rec.ok('targets_are_zero')
    nt = ~T
    if (P[nt & ~nanP] <= 0).any():
        i = tuple(int(v) for v in np.argwhere(nt & ~nanP & (P <= 0))[0])
        rec.violation('proximity.zero_on_non_target', 'non-target cell %s has proximity %r' % (i, P[i]), pay); return False
    # unbounded: no NaN
    unbounded = not np.isfinite(maxd)
    if unbounded:
        if nanP.any():
            i = tuple(int(v) for v in np.argwhere(nanP)[0])
            rec.violation('proximity.nan_despite_target', 'cell %s is NaN although a target exists and max_distance is unbounded' % (i,), pay); return False
        rec.ok('unbounded.no_nan')
    else:
        out_of_reach = dstar > maxd * (1 + 4 * E32) + tl
        if (~nanP[out_of_reach]).any():
            i = tuple(int(v) for v in np.argwhere(out_of_reach & ~nanP)[0])
            rec.violation('proximity.beyond_max_distance', 'cell %s: proximity %r although the nearest target is %r away (max_distance %r)' % (i, P[i], dstar[i], maxd), pay)
            return False
        if out_of_reach.any():
            rec.ok('no_target_in_reach.nan')
        band = np.abs(dstar - maxd) <= 1e-6 * maxd
        if (nanP & ~out_of_reach & ~band & nt).any():
            rec.cls('witness.nan_although_target_in_reach', int((nanP & ~out_of_reach & ~band & nt).sum()))
    val = ~nanP
    # never underestimated, never beyond max_distance
    if (P[val] < (dstar - tl)[val]).any():
        i = tuple(int(v) for v in np.argwhere(val & (P < dstar - tl))[0])
        rec.violation('proximity.underestimated', 'cell %s: proximity %r < distance to the nearest target %r' % (i, P[i], dstar[i]), pay); return False
    rec.ok('never_underestimated')
    if np.isfinite(maxd):
        if (P[val] > maxd * (1 + 4 * E32)).any():
            i = tuple(int(v) for v in np.argwhere(val & (P > maxd * (1 + 4 * E32)))[0])
            rec.violation('proximity.exceeds_max_distance', 'cell %s: proximity %r > max_distance %r' % (i, P[i], maxd), pay); return False
        rec.ok('max_distance.respected')
    # the triple names one real target
    Pm = P[..., None]; Am = A[..., None]; Dm = D[..., None]
    with np.errstate(invalid='ignore'):
        match = (np.abs(dm - Pm) <= 4 * E32 * np.maximum(dm, 1e-30) + 1e-30) & (tv == Am) & (nr.circ_diff(bm, Dm) <= 2e-3)
    named = match.any(axis=2)
    if (~named[val]).any():
        i = tuple(int(v) for v in np.argwhere(val & ~named)[0])
        # explain
        dmatch = np.abs(dm[i] - P[i]) <= 4 * E32 * np.maximum(dm[i], 1e-30) + 1e-30
        why = 'no target at that distance' if not dmatch.any() else \
            ('no target at that distance with value %r' % A[i] if not (dmatch & (tv == A[i])).any() else 'bearing %r does not point at it (expected %s)' % (D[i], np.round(bm[i][dmatch & (tv == A[i])], 3).tolist()))
        rec.violation('proximity.triple_names_no_target', 'cell %s: proximity %r, allocation %r, direction %r: %s' % (i, P[i], A[i], D[i], why), pay)
        return False
    rec.ok('triple_names_a_real_target')
    if exact or T.sum() == 1:
        if (np.abs(P - dstar)[val] > tl[val]).any() or (not unbounded and False):
            i = tuple(int(v) for v in np.argwhere(val & (np.abs(P - dstar) > tl))[0])
            rec.violation('proximity.inexact', 'cell %s: proximity %r, exact nearest-target distance %r (%s)' %
                          (i, P[i], dstar[i], 'single target' if T.sum() == 1 else 'exhaustively enumerated small grid'), pay); return False
        rec.ok('single_target.exact' if T.sum() == 1 else 'exhaustive.exact')
    return True


def check(rec, kind, idx, rng, tier):
    import xrspatial
    if kind == 'exh':
        h, w, b, nblk, metric = idx.split(',')
        h, w, b, nblk = int(h), int(w), int(b), int(nblk)
        ks = {m: _capture(metric, m) for m in ('proximity', 'allocation', 'direction')}
        if any(v is None for v in ks.values()):
            rec.cls('capture_failed'); _exh_public(rec, rng, metric); return
        geoms = [(1.0, 1.0, True)] if tier == 'quick' else [(1.0, 1.0, True), (2.0, 0.5, False)]
        total = 2 ** (h * w)
        lo = max(1, total * b // nblk); hi = total * (b + 1) // nblk
        ids = (np.arange(h * w) + 1).reshape(h, w).astype('float64')
        for (cx, cy, ydesc) in geoms:
            yv = np.arange(h) * cy; xv = np.arange(w) * cx
            if ydesc: yv = yv[::-1].copy()
            xs = np.tile(xv, h).reshape(h, w); ys = np.repeat(yv, w).reshape(h, w)
            for bits in range(lo, hi):
                m = np.array([(bits >> i) & 1 for i in range(h * w)], dtype=bool).reshape(h, w)
                img = np.where(m, ids, 0.0)
                rec.evaluation()
                P = rec.call(ks['proximity'], img, xs, ys); A = rec.call(ks['allocation'], img, xs, ys); D = rec.call(ks['direction'], img, xs, ys)
                pay = dict(kind='captured kernel, exhaustive', img=img, metric=metric, cx=cx, cy=cy, ydesc=ydesc)
                if any(hasattr(o, 'exc') for o in (P, A, D)):
                    rec.violation('proximity.raises', 'kernel raised %r' % ([P, A, D],), pay); continue
                if judge_triple(rec, img, xs, ys, None, np.inf, metric, P, A, D, pay, exact=True):
                    rec.ok('exhaustive.layouts')
                    if m.sum() >= 2 and not m.all():
                        rec.nontriv(h, w, bits, metric, cx, cy)
                if bits == lo and b == 0 and h == 3 and w == 3 and metric == 'EUCLIDEAN':
                    rec.sample(pay)
        return
    # ---------------- public API --------------------------------------------------------
    H, W = int(rng.integers(1, 13)), int(rng.integers(1, 13))
    metric = str(rng.choice(['EUCLIDEAN', 'EUCLIDEAN', 'MANHATTAN', 'GREAT_CIRCLE']))
    dens = float(rng.choice([0.03, 0.1, 0.3, 0.7]))
    vals = rng.integers(1, 5, (H, W)).astype('float64')
    img = np.where(rng.random((H, W)) < dens, vals, 0.0)
    layout = str(rng.choice(['random', 'single', 'none', 'corner', 'line']))
    if layout == 'single':
        img[:] = 0; img[int(rng.integers(0, H)), int(rng.integers(0, W))] = 3
    elif layout == 'none':
        img[:] = 0
    elif layout == 'corner':
        img[:] = 0; img[0, 0] = 1; img[-1, -1] = 2
    elif layout == 'line':
        img[:] = 0; img[int(rng.integers(0, H)), :] = rng.integers(1, 4, W)
    dt = str(rng.choice(['float64', 'float64', 'float32', 'int32', 'int64', 'uint8']))
    # hostile target values: not representable in float32 (fractions, ids above 2**24, tiny magnitudes)
    vclass = 'small'
    if dt in ('float64', 'int64') and rng.random() < 0.3:
        tm = img != 0
        if dt == 'float64':
            pool = np.array([0.1, 0.7, 1e-50, 123456.789, 16777217.0]); vclass = 'float64_not_float32'
        else:
            pool = np.array([2 ** 24 + 1, 2 ** 24 + 3, 2 ** 40 + 1, 5.0]); vclass = 'int_above_2^24'
        img = np.where(tm, rng.choice(pool, size=img.shape), 0.0)
    img = img.astype(dt)
    if img.dtype.kind == 'f' and rng.random() < 0.3:
        m = rng.random((H, W)) < 0.1
        img[m] = rng.choice([np.nan, np.inf, -np.inf], size=(H, W))[m]
    tvals = None
    if rng.random() < 0.1 and layout == 'random':
        img = np.where(rng.random((H, W)) < 0.08, 0, rng.integers(1, 5, (H, W))).astype(img.dtype)
        tvals = [0.0]; rec.cls('zero_as_explicit_target')
    elif rng.random() < 0.35:
        tvals = [float(v) for v in rng.choice([0, 1, 2, 3, 4, 9], size=int(rng.integers(1, 4)), replace=False)]
        if vclass != 'small':
            present = np.unique(img[(img != 0) & np.isfinite(img.astype('float64'))])
            if len(present):
                tvals = [v.item() for v in rng.choice(present, size=min(len(present), int(rng.integers(1, 3))), replace=False)] + [9.0]
    if metric == 'GREAT_CIRCLE':
        cx, cy = float(rng.choice([0.5, 1.0, 2.0, 10.0, 1e-4, 1e-5])), float(rng.choice([0.5, 1.0, 2.0, 5.0, 1e-4, 1e-5]))      # down to ~1 m cells
        x0 = float(rng.uniform(-170, 170 - cx * W)) if cx * W < 340 else -170.0
        y0 = float(rng.uniform(-85, 85 - cy * H)) if cy * H < 170 else -85.0
        geom = dict(cx=cx, cy=cy, x0=x0, y0=y0, ydesc=bool(rng.random() < 0.5), xdesc=False)
        scale = 111000.0 * min(cx, cy)
    else:
        geom = gen.random_geom(rng)
        scale = min(geom['cx'], geom['cy'])
    diag_cells = np.hypot(H, W)
    mdc = str(rng.choice(['inf', 'default', 'frac', 'one', 'some', 'huge']))
    maxd = {'inf': np.inf, 'default': None, 'frac': 0.4 * scale, 'one': 1.0 * scale, 'some': float(rng.choice([1.5, 2, 2.5, 3.7, 5])) * scale,
            'huge': 3 * diag_cells * max(geom['cx'], geom['cy']) * (111000.0 if metric == 'GREAT_CIRCLE' else 1)}[mdc]
    names = ('y', 'x') if rng.random() < 0.75 else ('lat', 'lon')
    r = gen.mk(gen.rand_layout(img, rng), dims=names, attrs={'res': (geom['cx'], geom['cy'])} if rng.random() < 0.3 else {}, **geom)
    kw = dict(distance_metric=metric)
    if metric == 'EUCLIDEAN' and rng.random() < 0.4:
        kw = {}
    if tvals is not None: kw['target_values'] = list(tvals)
    if maxd is not None: kw['max_distance'] = maxd
    if names != ('y', 'x'): kw.update(x=names[1], y=names[0])
    rec.evaluation(3)
    P = rec.call(xrspatial.proximity, r, **kw); A = rec.call(xrspatial.allocation, r, **kw); D = rec.call(xrspatial.direction, r, **kw)
    xs = np.tile(r[names[1]].values, H).reshape(H, W); ys = np.repeat(r[names[0]].values, W).reshape(H, W)
    pay = dict(kind='public API', img=img, kwargs={k: v for k, v in kw.items()}, geom=geom, layout=layout, dims=names)
    if len(rec.samples) < 1:
        rec.sample(pay)
    if any(hasattr(o, 'exc') for o in (P, A, D)):
        rec.violation('proximity.raises', 'proximity/allocation/direction raised: %r' % ([P, A, D],), pay); return
    eff_max = np.inf if maxd is None else maxd
    ok = judge_triple(rec, img, xs, ys, tvals, eff_max, metric, P.data, A.data, D.data, pay)
    if ok:
        rec.ok('metric.' + metric); rec.cls('max_distance.' + mdc); rec.cls('layout.' + layout); rec.cls('dtype.' + dt)
        if vclass != 'small': rec.ok('target_values_not_float32_representable')
        if tvals is not None: rec.ok('target_values.explicit')
        T = nr.target_mask(img, tvals)
        if T.sum() >= 2 and not T.all():
            rec.nontriv(img.tobytes(), repr(kw), repr(geom))
        # raster identity of the three outputs
        for o in (P, A, D):
            if tuple(o.dims) != tuple(r.dims) or not all(np.array_equal(o[c].values, r[c].values) for c in r.coords) or dict(o.attrs) != dict(r.attrs):
                rec.violation('proximity.identity', 'dims/coords/attrs of the output differ from the input', pay); break
        else:
            rec.ok('identity')


def _exh_public(rec, rng, metric):
    """Fallback when the closure cannot be captured: exhaustive 3x3 through the public API (sampled)."""
    import xrspatial
    h = w = 3
    ids = (np.arange(9) + 1).reshape(3, 3).astype('float64')
    for bits in rng.choice(np.arange(1, 512), size=12, replace=False):
        m = np.array([(int(bits) >> i) & 1 for i in range(9)], dtype=bool).reshape(3, 3)
        img = np.where(m, ids, 0.0)
        r = gen.mk(img, ydesc=True)
        rec.evaluation(3)
        P = rec.call(xrspatial.proximity, r, distance_metric=metric); A = rec.call(xrspatial.allocation, r, distance_metric=metric)
        D = rec.call(xrspatial.direction, r, distance_metric=metric)
        if any(hasattr(o, 'exc') for o in (P, A, D)):
            rec.violation('proximity.raises', 'raised %r' % ([P, A, D],), dict(img=img)); continue
        xs = np.tile(r['x'].values, 3).reshape(3, 3); ys = np.repeat(r['y'].values, 3).reshape(3, 3)
        judge_triple(rec, img, xs, ys, None, np.inf, metric, P.data, A.data, D.data, dict(img=img, metric=metric), exact=True)
