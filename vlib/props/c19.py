"""C19 Distance metrics are metrics; circle/annulus kernels are the stated shapes."""
import math

import numpy as np
import xarray as xr

PID = 'C19'
RULE = ("point pairs/triples drawn from hostile classes (random, coincident, near-coincident, poles, antimeridian, "
        "antipodes, axis-aligned, huge/small magnitudes); kernels over a grid of radius/cellsize ratios incl. "
        "non-multiples and cx!=cy, radius given as number or '<num>[ ]<unit>' string; non-trivial = distinct "
        "(class, parameters) whose points are not all identical / whose kernel has more than one cell")
BUDGET = {'quick': 120, 'thorough': 400}
FLOORS = {'quick': {'metric.symmetric': 3000, 'kernel.circle.mask': 300, 'kernel.annulus': 200, 'units.convert': 100,
                    'units.reject': 20, 'gc.range_reject': 50, 'metric.triangle': 2000},
          'thorough': {'metric.symmetric': 30000, 'kernel.circle.mask': 3000, 'kernel.annulus': 2000}}
ASSUMPTIONS = ['great-circle reference = atan2 vector formula in float64; agreement judged at 1e-9 relative + 0.2 m '
               '(haversine loses ~sqrt(eps)*R near antipodes)',
               "unit vocabulary = the four families the library's own error message documents"]
R = 6378137.0
UNIT_TABLE = {'meter': 1.0, 'meters': 1.0, 'm': 1.0,
              'kilometer': 1000.0, 'kilometers': 1000.0, 'km': 1000.0,
              'foot': 0.3048, 'feet': 0.3048, 'ft': 0.3048,
              'mile': 1609.344, 'miles': 1609.344, 'ml': 1609.344, 'mls': 1609.344}


def plan(tier, seed):
    n = 16 if tier == 'quick' else 1600
    out = []
    for i in range(n):
        out += [('plane', i), ('sphere', i), ('kernel', i), ('units', i), ('cellsize', i)]
    return out


def _gc_ref(lon1, lon2, lat1, lat2):
    p1, l1, p2, l2 = map(math.radians, (lat1, lon1, lat2, lon2))
    dl = l2 - l1
    y = math.hypot(math.cos(p2) * math.sin(dl), math.cos(p1) * math.sin(p2) - math.sin(p1) * math.cos(p2) * math.cos(dl))
    x = math.sin(p1) * math.sin(p2) + math.cos(p1) * math.cos(p2) * math.cos(dl)
    return R * math.atan2(y, x)


def _plane_point(rng, cls):
    if cls == 'small':
        return rng.uniform(-1e-3, 1e-3, 2)
    if cls == 'big':
        return rng.uniform(-1e9, 1e9, 2)
    if cls == 'int':
        return rng.integers(-5, 6, 2).astype(float)
    return rng.uniform(-1000, 1000, 2)


def check(rec, kind, idx, rng, tier):
    from xrspatial import euclidean_distance as eu, manhattan_distance as mh, great_circle_distance as gc
    from xrspatial.convolution import circle_kernel, annulus_kernel, calc_cellsize, _get_distance
    if kind == 'plane':
        for name, f in (('euclidean', eu), ('manhattan', mh)):
            for _ in range(120):
                rec.evaluation()
                cls = str(rng.choice(['uni', 'small', 'big', 'int']))
                a, b, c = (_plane_point(rng, cls) for _ in range(3))
                variant = rng.integers(0, 5)
                if variant == 0:
                    b = a.copy()
                elif variant == 1:
                    b = a + np.array([rng.choice([-1, 1]) * max(abs(a[0]), 1e-3) * 1e-6, 0.0])  # near, separated
                elif variant == 2:
                    b = np.array([a[0], b[1]])    # axis aligned
                    c = np.array([a[0], c[1]])    # collinear triple
                rec.cls('plane.' + cls)
                rec.nontriv('plane', name, cls, a.tolist(), b.tolist())
                dab = rec.call(f, a[0], b[0], a[1], b[1]); dba = rec.call(f, b[0], a[0], b[1], a[1])
                dac = rec.call(f, a[0], c[0], a[1], c[1]); dcb = rec.call(f, c[0], b[0], c[1], b[1])
                daa = rec.call(f, a[0], a[0], a[1], a[1])
                pay = dict(metric=name, a=a, b=b, c=c, dab=dab, dba=dba, dac=dac, dcb=dcb, daa=daa)
                if any(hasattr(v, 'exc') for v in (dab, dba, dac, dcb, daa)):
                    rec.violation('metric.raises', '%s raised on finite plane points: %r' % (name, [dab, dba, dac, dcb, daa]), pay)
                    continue
                if idx == 0:
                    rec.sample(pay)
                ref = math.hypot(a[0] - b[0], a[1] - b[1]) if name == 'euclidean' else abs(a[0] - b[0]) + abs(a[1] - b[1])
                if not (abs(dab - ref) <= 1e-12 * max(ref, 1e-300) + 0.0):
                    rec.violation('metric.value', '%s(%s,%s)=%r, reference %r' % (name, a, b, dab, ref), pay)
                else:
                    rec.ok('metric.value')
                if not abs(dab - dba) <= 1e-13 * abs(dab):
                    rec.violation('metric.asymmetric', '%s: d(a,b)=%r d(b,a)=%r' % (name, dab, dba), pay)
                else:
                    rec.ok('metric.symmetric')
                if daa != 0:
                    rec.violation('metric.identity', '%s: d(a,a)=%r' % (name, daa), pay)
                else:
                    rec.ok('metric.identity')
                if (a != b).any():
                    if not dab > 0:
                        rec.violation('metric.separation', '%s: d(a,b)=%r for distinct points' % (name, dab), pay)
                    else:
                        rec.ok('metric.separation')
                if not dab <= dac + dcb + 1e-9 * (dac + dcb):
                    rec.violation('metric.triangle', '%s: d(a,b)=%r > d(a,c)+d(c,b)=%r' % (name, dab, dac + dcb), pay)
                else:
                    rec.ok('metric.triangle')
    elif kind == 'sphere':
        for _ in range(150):
            rec.evaluation()
            cls = str(rng.choice(['uni', 'antipode', 'pole', 'antimeridian', 'near', 'same', 'edge']))
            a = np.array([rng.uniform(-180, 180), rng.uniform(-90, 90)])
            b = np.array([rng.uniform(-180, 180), rng.uniform(-90, 90)])
            c = np.array([rng.uniform(-180, 180), rng.uniform(-90, 90)])
            if cls == 'antipode':
                b = np.array([a[0] - 180 if a[0] > 0 else a[0] + 180, -a[1]])
                if rng.random() < 0.5:
                    b = b + rng.uniform(-1e-6, 1e-6, 2)
                    b = np.array([min(180, max(-180, b[0])), min(90, max(-90, b[1]))])
            elif cls == 'pole':
                a[1] = float(rng.choice([90.0, -90.0])); b[1] = float(rng.choice([90.0, -90.0]))
            elif cls == 'antimeridian':
                a[0] = float(rng.choice([180.0, -180.0, 179.999999])); b[0] = float(rng.choice([-180.0, 180.0, -179.999999]))
            elif cls == 'near':
                b = a + rng.uniform(-1e-7, 1e-7, 2)
                b = np.array([min(180, max(-180, b[0])), min(90, max(-90, b[1]))])
            elif cls == 'same':
                b = a.copy()
            elif cls == 'edge':
                a = np.array([float(rng.choice([-180, 180, 0])), float(rng.choice([-90, 90, 0]))])
            rec.cls('sphere.' + cls)
            rec.nontriv('sphere', cls, a.tolist(), b.tolist())
            dab = rec.call(gc, a[0], b[0], a[1], b[1]); dba = rec.call(gc, b[0], a[0], b[1], a[1])
            dac = rec.call(gc, a[0], c[0], a[1], c[1]); dcb = rec.call(gc, c[0], b[0], c[1], b[1])
            daa = rec.call(gc, a[0], a[0], a[1], a[1])
            pay = dict(metric='great_circle', a=a, b=b, c=c, dab=dab, dba=dba, dac=dac, dcb=dcb, daa=daa)
            if any(hasattr(v, 'exc') for v in (dab, dba, dac, dcb, daa)):
                rec.violation('gc.raises', 'great_circle_distance raised on in-range points: %r' % ([dab, dba, dac, dcb, daa],), pay)
                continue
            if idx == 0:
                rec.sample(pay)
            vals = (dab, dba, dac, dcb, daa)
            if any(not math.isfinite(v) or v < 0 for v in vals):
                rec.violation('gc.notfinite', 'great-circle distance not a finite non-negative number: %r' % (vals,), pay)
                continue
            ref = _gc_ref(a[0], b[0], a[1], b[1])
            if not abs(dab - ref) <= 1e-9 * ref + 0.2:
                rec.violation('gc.value', 'great_circle(%s,%s)=%r, reference %r' % (a, b, dab, ref), pay)
            else:
                rec.ok('metric.value')
            if not abs(dab - dba) <= 1e-12 * abs(dab) + 1e-9:
                rec.violation('metric.asymmetric', 'great_circle: d(a,b)=%r d(b,a)=%r' % (dab, dba), pay)
            else:
                rec.ok('metric.symmetric')
            if daa != 0:
                rec.violation('metric.identity', 'great_circle: d(a,a)=%r' % daa, pay)
            else:
                rec.ok('metric.identity')
            sep = _gc_ref(a[0], b[0], a[1], b[1])
            if sep > 1e-3:
                if not dab > 0:
                    rec.violation('metric.separation', 'great_circle: 0 for points %r m apart' % sep, pay)
                else:
                    rec.ok('metric.separation')
            if not dab <= math.pi * R * (1 + 1e-12):
                rec.violation('gc.exceeds_half_circumference', 'great_circle=%r > pi*R' % dab, pay)
            else:
                rec.ok('gc.half_circumference')
            if not dab <= dac + dcb + 1.0:
                rec.violation('metric.triangle', 'great_circle: d(a,b)=%r > d(a,c)+d(c,b)=%r' % (dab, dac + dcb), pay)
            else:
                rec.ok('metric.triangle')
        # custom radius scales linearly
        for _ in range(10):
            rec.evaluation()
            a = np.array([rng.uniform(-180, 180), rng.uniform(-90, 90)]); b = np.array([rng.uniform(-180, 180), rng.uniform(-90, 90)])
            d1 = rec.call(gc, a[0], b[0], a[1], b[1]); d2 = rec.call(gc, a[0], b[0], a[1], b[1], 1.0)
            if hasattr(d1, 'exc') or hasattr(d2, 'exc') or not abs(d1 - d2 * R) <= 1e-12 * d1:
                rec.violation('gc.radius', 'radius argument does not scale: %r vs %r' % (d1, d2), dict(a=a, b=b))
            else:
                rec.ok('gc.radius')
        # out-of-range rejection
        for _ in range(40):
            rec.evaluation()
            pt = [rng.uniform(-180, 180), rng.uniform(-180, 180), rng.uniform(-90, 90), rng.uniform(-90, 90)]
            k = int(rng.integers(0, 4))
            lim = 180 if k < 2 else 90
            off = float(rng.choice([1e-9, 1e-3, 1.0, 200.0, 1e6]))
            pt[k] = (lim + off) * float(rng.choice([-1, 1]))
            r = rec.call(gc, pt[0], pt[1], pt[2], pt[3])
            rec.nontriv('gcrange', k, off, pt[k] > 0)
            if hasattr(r, 'exc') and r.type == 'ValueError':
                rec.ok('gc.range_reject')
            else:
                rec.violation('gc.accepts_out_of_range', 'great_circle_distance%r -> %r' % (tuple(pt), r), dict(args=pt, result=r))
    elif kind == 'kernel':
        for _ in range(60):
            rec.evaluation()
            cx = float(rng.choice([1, 1, 2, 0.5, 0.25, 3, 10, 30, 0.1, 1 / 3, 7.5]))
            cy = cx if rng.random() < 0.4 else float(rng.choice([1, 2, 0.5, 0.25, 3, 10, 30, 0.1, 1 / 3, 7.5]))
            ratio = float(rng.choice([0.3, 0.99, 1, 1.5, 2, 2.5, 3, 3.999, 4, 5.25, 7, 9.5, 12]))
            radius = ratio * float(rng.choice([cx, cy, max(cx, cy)]))
            as_str = rng.random() < 0.3
            unit, fac = '', 1.0
            rad_arg = radius
            if as_str:
                unit = str(rng.choice(['m', ' m', 'meters', 'km', ' ft', 'feet', 'miles', 'Meters', 'KM']))
                fac = UNIT_TABLE[unit.strip().lower()]
                rad_arg = ('%r' % radius) + unit
            r_m = radius * fac
            hw, hh = int(r_m / cx), int(r_m / cy)
            if hw > 400 or hh > 400:
                rec.rej('kernel.too_big')
                continue
            k = rec.call(circle_kernel, cx, cy, rad_arg)
            pay = dict(cx=cx, cy=cy, radius=rad_arg, hw=hw, hh=hh, got=k)
            if hasattr(k, 'exc'):
                rec.violation('kernel.circle.raises', 'circle_kernel(%r,%r,%r) raised %r' % (cx, cy, rad_arg, k), pay)
                continue
            xs = np.arange(-hw, hw + 1, dtype='int64'); ys = np.arange(-hh, hh + 1, dtype='int64')[:, None]
            exp = ((xs * hh) ** 2 + (ys * hw) ** 2 <= (hw * hh) ** 2).astype(float)
            rec.cls('kernel.cx!=cy' if cx != cy else 'kernel.square')
            rec.cls('kernel.radius_string' if as_str else 'kernel.radius_number')
            if exp.size > 1:
                rec.nontriv('circle', cx, cy, rad_arg)
            if idx == 0:
                rec.sample(dict(cx=cx, cy=cy, radius=rad_arg, kernel_shape=list(np.shape(k))))
            k = np.asarray(k)
            if k.shape != exp.shape or not np.array_equal(k, exp):
                rec.violation('kernel.circle.mask', 'circle_kernel(%r,%r,%r): shape %s expected %s or mask differs from ellipse'
                              % (cx, cy, rad_arg, k.shape, exp.shape), dict(pay, expected=exp))
                continue
            rec.ok('kernel.circle.mask')
            if k.shape[0] % 2 == 1 and k.shape[1] % 2 == 1 and np.array_equal(k, k[::-1]) and np.array_equal(k, k[:, ::-1]) \
                    and set(np.unique(k)) <= {0.0, 1.0} and k[k.shape[0] // 2, k.shape[1] // 2] == 1:
                rec.ok('kernel.circle.symmetry_odd_01')
            else:
                rec.violation('kernel.circle.symmetry', 'circle kernel not odd/flip-symmetric/0-1', pay)
            # annulus
            inner_ratio = float(rng.choice([0.2, 0.5, 0.75, 0.999, 1.0]))
            inner = radius * inner_ratio
            in_arg = inner if not as_str else ('%r' % inner) + unit
            an = rec.call(annulus_kernel, cx, cy, rad_arg, in_arg)
            ihw, ihh = int(inner * fac / cx), int(inner * fac / cy)
            ixs = np.arange(-ihw, ihw + 1, dtype='int64'); iys = np.arange(-ihh, ihh + 1, dtype='int64')[:, None]
            iexp = ((ixs * ihh) ** 2 + (iys * ihw) ** 2 <= (ihw * ihh) ** 2).astype(float)
            full = np.zeros_like(exp)
            r0 = (exp.shape[0] - iexp.shape[0]) // 2; c0 = (exp.shape[1] - iexp.shape[1]) // 2
            full[r0:r0 + iexp.shape[0], c0:c0 + iexp.shape[1]] = iexp
            aexp = exp - full
            apay = dict(cx=cx, cy=cy, outer=rad_arg, inner=in_arg, got=an, expected=aexp)
            if hasattr(an, 'exc'):
                rec.violation('kernel.annulus.raises', 'annulus_kernel raised %r' % an, apay)
                continue
            an = np.asarray(an)
            if an.shape != aexp.shape or not np.array_equal(an, aexp):
                rec.violation('kernel.annulus', 'annulus_kernel(%r,%r,%r,%r) != outer - centred inner' % (cx, cy, rad_arg, in_arg), apay)
            elif (an < 0).any():
                rec.violation('kernel.annulus.negative', 'annulus has negative entries', apay)
            else:
                rec.ok('kernel.annulus')
                if iexp.shape != exp.shape:
                    rec.cls('annulus.inner_smaller_shape')
    elif kind == 'units':
        for _ in range(40):
            rec.evaluation()
            num = float(rng.choice([1, 2.5, 0.75, 10, 100, 0.001, 12345.678, 3]))
            numstr = str(rng.choice(['%r' % num, '%g' % num, str(int(num)) if num == int(num) else '%r' % num]))
            if 'e' in numstr:
                numstr = '%f' % num
            unit = str(rng.choice(list(UNIT_TABLE)))
            shown = unit if rng.random() < 0.6 else str(rng.choice([unit.upper(), unit.capitalize()]))
            s = numstr + str(rng.choice(['', ' ', '  '])) + shown
            got = rec.call(_get_distance, s)
            exp = float(numstr) * UNIT_TABLE[unit]
            rec.nontriv('unit', s)
            rec.cls('unit.' + unit)
            if hasattr(got, 'exc'):
                mech = 'units.singular_mile_rejected' if unit == 'mile' else 'units.rejects_valid'
                rec.violation(mech, '_get_distance(%r) raised %r (documented unit)' % (s, got), dict(s=s, expected=exp))
            elif not abs(got - exp) <= 1e-12 * exp:
                rec.violation('units.convert', '_get_distance(%r)=%r expected %r m' % (s, got, exp), dict(s=s, expected=exp, got=got))
            else:
                rec.ok('units.convert')
        # bare numbers are metres
        for s in ('5', '2.5', '.5', '007'):
            rec.evaluation()
            got = rec.call(_get_distance, s)
            if hasattr(got, 'exc') or got != float(s):
                rec.violation('units.bare_number', '_get_distance(%r)=%r' % (s, got), dict(s=s))
            else:
                rec.ok('units.convert')
        bad = ['0', '-1', '-2.5 km', '0 m', '0.0', 'abc', '', 'km', '5 parsec', '5 lightyears', '3 4', '1 m 2', '-0', 'm5',
               '5 k m s']
        for s in bad:
            rec.evaluation()
            got = rec.call(_get_distance, s)
            rec.nontriv('badunit', s)
            if hasattr(got, 'exc'):
                rec.ok('units.reject')
            else:
                rec.violation('units.accepts_malformed', '_get_distance(%r) accepted -> %r' % (s, got), dict(s=s, got=got))
        for radius in (0, -1, -0.5, '0', '-3 km', 'x'):
            rec.evaluation()
            got = rec.call(circle_kernel, 1, 1, radius)
            if hasattr(got, 'exc'):
                rec.ok('units.reject')
            else:
                rec.violation('kernel.accepts_bad_radius', 'circle_kernel(1,1,%r) accepted' % (radius,), dict(radius=radius, got=got))
    elif kind == 'cellsize':
        for _ in range(20):
            rec.evaluation()
            H, W = int(rng.integers(2, 9)), int(rng.integers(2, 9))
            cx = float(rng.choice([1, 0.5, 2, 10, 30, 0.25])); cy = float(rng.choice([1, 0.5, 2, 10, 30, 0.25]))
            ydesc = bool(rng.random() < 0.5)
            ys = 5 + cy * np.arange(H); xs = -3 + cx * np.arange(W)
            if ydesc:
                ys = ys[::-1]
            attrs = {}
            mode = str(rng.choice(['coords', 'res_tuple', 'res_scalar', 'res_negy']))
            unit = str(rng.choice(['', 'm', 'km', 'ft', 'miles', 'meters']))
            ex, ey = cx, cy
            if mode == 'res_tuple':
                ex, ey = 3.0, 7.0; attrs['res'] = (ex, ey)
            elif mode == 'res_scalar':
                ex = ey = 4.0; attrs['res'] = 4.0
            elif mode == 'res_negy':
                ex, ey = 3.0, 7.0; attrs['res'] = (3.0, -7.0)
            fac = 1.0
            if unit:
                attrs['unit'] = unit; fac = UNIT_TABLE[unit]
            r = xr.DataArray(np.zeros((H, W)), dims=['y', 'x'], coords={'y': ys, 'x': xs}, attrs=attrs)
            got = rec.call(calc_cellsize, r)
            rec.nontriv('cellsize', H, W, cx, cy, mode, unit, ydesc)
            pay = dict(H=H, W=W, cx=cx, cy=cy, mode=mode, unit=unit, ydesc=ydesc, got=got)
            if hasattr(got, 'exc'):
                rec.violation('cellsize.raises', 'calc_cellsize raised %r' % got, pay)
                continue
            gx, gy = got
            if abs(gx - ex * fac) <= 1e-9 * ex * fac and abs(gy - ey * fac) <= 1e-9 * ey * fac and gy > 0:
                rec.ok('cellsize')
            else:
                rec.violation('cellsize.value', 'calc_cellsize=%r expected %r' % (got, (ex * fac, ey * fac)), pay)
