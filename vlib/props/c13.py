"""C13 Spectral indices equal their band formulas, NaN where undefined."""
import numpy as np
import xarray as xr

from vlib import gen, tol

PID = 'C13'
RULE = ("band rasters up to 10x10 in uint8/uint16/int32/float32/float64 with distinct value ranges per band (argument-order mix-ups "
        "change the result), zeros, equal bands, bands arranged so that denominators are exactly zero in places, NaN cells; random "
        "soil_factor in [-1,1], c1, c2, gain >= 0; NumPy backend and (1 in 3) Dask with random chunking; non-trivial = distinct "
        "(index, dtype, data hash, parameters) with >= 2 distinct finite output values")
BUDGET = {'quick': 160, 'thorough': 500}
FLOORS = {'quick': {'formula': 1000, 'zero_denominator_nan': 300, 'nd.range': 267, 'nd.swap_negates': 267, 'nd.pow2_scale': 225,
                    'true_color.alpha': 50, 'uint_nir_lt_red': 100, 'dask': 300},
          'thorough': {'formula': 15000, 'zero_denominator_nan': 3000}}
ASSUMPTIONS = ['oracle = float64 evaluation of the documented formula on the float32-cast bands, tolerance 8*eps32*scale where scale is '
               'the magnitude of the intermediate quotient (gci: nir/green) or of the result',
               'SAVI oracle is the formula the library documents and its QGIS-derived tests pin: (nir-red)/((nir+red+L)(1+L))',
               'cells whose denominator is within 1e-6 relative of cancelling (but not exactly zero) are do-not-care',
               'true_color RGB channels are compared (+-1 level) only where the band is finite; NaN->uint8 casts are unspecified']
E32 = tol.EPS32


def plan(tier, seed):
    n = 200 if tier == 'quick' else 8000
    return [('idx', i) for i in range(n)] + [('tc', i) for i in range(n // 2)]


def _bands(rng, H, W, dtype, names):
    """Distinct value ranges per band; sprinkle zeros / equalities / NaN."""
    out = {}
    kind = np.dtype(dtype).kind
    ranges = list(rng.permutation([(1, 60), (40, 120), (100, 250), (5, 30), (150, 255)]))
    for i, nm in enumerate(names):
        lo, hi = ranges[i % len(ranges)]
        if kind == 'f':
            a = rng.uniform(lo, hi, (H, W))
            if rng.random() < 0.3:
                a = np.round(a)                     # integer-valued floats: exact zero denominators possible
            if rng.random() < 0.2:
                a = a / 256.0                       # reflectance-like fractions
        else:
            a = rng.integers(lo, hi + 1, (H, W)).astype('float64')
            if dtype in ('uint16', 'int32') and rng.random() < 0.5:
                a = a * 37
        out[nm] = a
    # zeros
    for nm in names:
        if rng.random() < 0.5:
            m = rng.random((H, W)) < 0.15
            out[nm][m] = 0
    # equal bands somewhere
    if len(names) >= 2 and rng.random() < 0.6:
        m = rng.random((H, W)) < 0.2
        out[names[1]][m] = out[names[0]][m]
    if len(names) >= 3 and rng.random() < 0.4:
        m = rng.random((H, W)) < 0.2
        out[names[2]][m] = out[names[0]][m]
    res = {}
    for nm in names:
        a = out[nm].astype(dtype)
        if kind == 'f' and rng.random() < 0.4:
            a = gen.sprinkle(a, rng, 0.1, where='random').astype(dtype)
        res[nm] = gen.rand_layout(a, rng)
    return res


def _f32(a):
    return a.astype('float32').astype('float64')


INDICES = {
    # name: (band argument names in API order, formula(bands, params) -> (ref, den, scale, terms))
    'arvi': (('nir', 'red', 'blue'),),
    'evi': (('nir', 'red', 'blue'),),
    'gci': (('nir', 'green'),),
    'nbr': (('nir', 'swir2'),),
    'nbr2': (('swir1', 'swir2'),),
    'ndvi': (('nir', 'red'),),
    'ndmi': (('nir', 'swir1'),),
    'savi': (('nir', 'red'),),
    'sipi': (('nir', 'red', 'blue'),),
    'ebbi': (('red', 'swir', 'tir'),),
}
ND = {'nbr', 'nbr2', 'ndvi', 'ndmi'}


def _formula(name, b, p):
    with np.errstate(all='ignore'):
        if name == 'arvi':
            num = b['nir'] - 2 * b['red'] + b['blue']; den = b['nir'] + 2 * b['red'] + b['blue']
            terms = np.abs(b['nir']) + 2 * np.abs(b['red']) + np.abs(b['blue'])
            ref = num / den; scale = np.abs(ref)
        elif name == 'evi':
            num = b['nir'] - b['red']; den = b['nir'] + p['c1'] * b['red'] - p['c2'] * b['blue'] + p['soil_factor']
            terms = np.abs(b['nir']) + abs(p['c1']) * np.abs(b['red']) + abs(p['c2']) * np.abs(b['blue']) + abs(p['soil_factor'])
            ref = p['gain'] * (num / den); scale = np.abs(ref)
        elif name == 'gci':
            den = b['green']; terms = np.abs(den)
            q = b['nir'] / den; ref = q - 1; scale = np.maximum(np.abs(q), 1.0)
        elif name in ND:
            a1, a2 = (b[k] for k in INDICES[name][0])
            num = a1 - a2; den = a1 + a2; terms = np.abs(a1) + np.abs(a2)
            ref = num / den; scale = np.abs(ref)
        elif name == 'savi':
            L = p['soil_factor']
            num = b['nir'] - b['red']; den = (b['nir'] + b['red'] + L) * (1.0 + L)
            terms = (np.abs(b['nir']) + np.abs(b['red']) + abs(L)) * abs(1.0 + L)
            ref = num / den; scale = np.abs(ref)
        elif name == 'sipi':
            num = b['nir'] - b['blue']; den = b['nir'] - b['red']; terms = np.abs(b['nir']) + np.abs(b['red'])
            ref = num / den; scale = np.abs(ref)
        elif name == 'ebbi':
            s = b['swir'] + b['tir']
            den = 10 * np.sqrt(s); terms = np.abs(den)
            ref = (b['swir'] - b['red']) / den; scale = np.abs(ref)
        undefined = (den == 0) | np.isnan(den)
        for v in b.values():
            undefined |= np.isnan(v)
        ref = np.where(undefined, np.nan, ref)
    return ref, den, scale, terms


def check(rec, kind, idx, rng, tier):
    from xrspatial import multispectral as ms
    import dask.array as da
    H, W = int(rng.integers(1, 11)), int(rng.integers(1, 11))
    geom = gen.random_geom(rng)
    if kind == 'tc':
        _true_color(rec, idx, rng, ms, H, W, geom)
        return
    dtype = str(rng.choice(['uint8', 'uint16', 'int32', 'float32', 'float64']))
    for name in INDICES:
        rec.evaluation()
        bnames = INDICES[name][0]
        bands = _bands(rng, H, W, dtype, bnames)
        p = {}
        if name == 'evi':
            p = dict(c1=float(rng.choice([6.0, 1.0, 0.0, 3.5])), c2=float(rng.choice([7.5, 0.0, 2.0])),
                     soil_factor=float(rng.choice([1.0, 0.0, -1.0, 0.5, -0.25])), gain=float(rng.choice([2.5, 0.0, 1.0, 10.0])))
            if rng.random() < 0.3:
                p = {}
        if name == 'savi':
            p = dict(soil_factor=float(rng.choice([1.0, 0.0, -1.0, 0.5, -0.5, 0.25])))
            if rng.random() < 0.3:
                p = {}
        full = dict(p)
        if name == 'evi':
            for k2, v2 in dict(c1=6.0, c2=7.5, soil_factor=1.0, gain=2.5).items():
                full.setdefault(k2, v2)
        if name == 'savi':
            full.setdefault('soil_factor', 1.0)
        use_dask = (idx + len(name)) % 3 == 0
        chunks = gen.random_chunks((H, W), rng) if use_dask else None
        das = [gen.mk(bands[nm], chunks=(gen.random_chunks((H, W), rng) if (use_dask and rng.random() < 0.3) else chunks),
                      attrs={'res': (geom['cx'], geom['cy']), 'band': nm}, name=nm, **geom) for nm in bnames]
        if rng.random() < 0.2 and len(das) >= 2:
            # same grid, other coordinate labels on a later band (south-up vs north-up, shifted x): the indices are per cell, i.e. positional
            j_ = int(rng.integers(1, len(das)))
            das[j_] = das[j_].assign_coords(y=das[j_]['y'].values[::-1].copy(), x=das[j_]['x'].values + 0.25 * geom['cx'])
            rec.cls('bands_with_different_coordinate_labels')
        out = rec.call(getattr(ms, name), *das, **p)
        b64 = {nm: _f32(bands[nm]) for nm in bnames}
        ref, den, scale, terms = _formula(name, b64, full)
        pay = dict(index=name, dtype=dtype, params=p, bands=bands, dask=use_dask, chunks=chunks, expected=ref)
        if hasattr(out, 'exc'):
            rec.violation(name + '.raises', '%s raised %r' % (name, out), pay); continue
        data = out.data
        if use_dask:
            if not isinstance(data, da.Array):
                rec.violation(name + '.not_dask', 'Dask input gave %s' % type(data), pay); continue
            data = rec.call(data.compute)
            if hasattr(data, 'exc'):
                rec.violation(name + '.dask_raises', '%s on Dask raised at compute: %r (chunks %s)' % (name, data, chunks), pay); continue
        got = np.asarray(data)
        pay['got'] = got
        if got.shape != (H, W) or got.dtype != np.float32:
            rec.violation(name + '.dtype_shape', '%s: output dtype %s shape %s (expected float32 %s)' % (name, got.dtype, got.shape, (H, W)), pay); continue
        g = got.astype('float64')
        rec.cls('index.' + name); rec.cls('dtype.' + dtype)
        if use_dask:
            rec.ok('dask')
        fin = ref[~np.isnan(ref)]
        if len(np.unique(fin)) >= 2:
            rec.nontriv(name, dtype, tuple(sorted(p.items())), b''.join(bands[nm].tobytes() for nm in bnames))
        if len(rec.samples) < 1 and name in ('ndvi', 'evi'):
            rec.sample(dict(index=name, dtype=dtype, params=p, bands={k2: v2 for k2, v2 in bands.items()}, got=got))
        # 1. undefined cells are NaN (never inf, never a number)
        undefined = np.isnan(ref)
        if np.isinf(g).any():
            i = tuple(int(v) for v in np.argwhere(np.isinf(g))[0])
            rec.violation(name + '.inf', '%s: +-inf at %s (denominator %r)' % (name, i, float(den[i])), pay); continue
        if (~np.isnan(g[undefined])).any():
            i = tuple(int(v) for v in np.argwhere(undefined & ~np.isnan(g))[0])
            rec.violation(name + '.number_where_undefined', '%s: value %r at %s where the denominator is 0 or a band is NaN' % (name, float(g[i]), i), pay)
            continue
        zden = (den == 0)
        if zden.any():
            rec.ok('zero_denominator_nan', int(zden.sum()))
        nanband = np.zeros((H, W), bool)
        for v in b64.values():
            nanband |= np.isnan(v)
        if nanband.any():
            rec.ok('nan_band_propagates', int(nanband.sum()))
        # 2. defined cells equal the formula
        with np.errstate(all='ignore'):
            illcond = ~undefined & (np.abs(den) < 1e-6 * terms)
        judged = ~undefined & ~illcond
        if illcond.any():
            rec.dc('formula.near_cancelling_denominator', int(illcond.sum()))
        if np.isnan(g[judged]).any():
            i = tuple(int(v) for v in np.argwhere(judged & np.isnan(g))[0])
            rec.violation(name + '.nan_where_defined', '%s: NaN at %s although the formula gives %r' % (name, i, float(ref[i])), pay); continue
        # forward error bound: the kernels add the float32 bands in float32 before the float64 constants, so a denominator
        # that nearly cancels carries a relative error eps32 * (sum of |terms|) / |denominator|
        with np.errstate(all='ignore'):
            cond = np.where(np.abs(den) > 0, np.maximum(1.0, terms / np.abs(den)), 1.0)
        lim = 8 * E32 * np.maximum(scale, 1e-30) * np.where(np.isfinite(cond), cond, 1.0)
        with np.errstate(all='ignore'):
            bad = judged & ~(np.abs(g - ref) <= lim)
        if bad.any():
            i = tuple(int(v) for v in np.argwhere(bad)[0])
            rec.violation(name + '.formula', '%s at %s: got %r, formula gives %r (bands %s)' %
                          (name, i, float(g[i]), float(ref[i]), {nm: float(b64[nm][i]) for nm in bnames}), pay)
            continue
        rec.ok('formula'); rec.ok('formula.cells', int(judged.sum()))
        if np.dtype(dtype).kind == 'u' and len(bnames) >= 2 and (bands[bnames[0]] < bands[bnames[1]]).any():
            rec.ok('uint_nir_lt_red')
        # 3. exact relations of the normalised differences
        if name in ND and not use_dask:
            a1, a2 = bands[bnames[0]], bands[bnames[1]]
            nonneg = (b64[bnames[0]] >= 0) & (b64[bnames[1]] >= 0) & ~undefined
            if ((np.abs(g[nonneg]) <= 1.0)).all():
                rec.ok('nd.range')
            else:
                rec.violation(name + '.range', '%s outside [-1,1] for non-negative bands' % name, pay)
            sw = rec.call(getattr(ms, name), das[1], das[0])
            if hasattr(sw, 'exc'):
                rec.violation(name + '.raises', 'swapped call raised %r' % sw, pay)
            else:
                d = tol.first_diff_exact(np.asarray(sw.data, dtype='float64'), -g)
                if d is None:
                    rec.ok('nd.swap_negates')
                else:
                    rec.violation(name + '.swap', '%s(b,a) != -%s(a,b): %r' % (name, name, d), pay)
            if np.dtype(dtype).kind == 'f':
                e = int(rng.integers(-8, 9)) if rng.random() < 0.5 else int(rng.choice([-40, -30, -24, 20, 30]))     # very dark / very bright scenes
                sc = [gen.mk((bands[nm] * (2.0 ** e)).astype(dtype), **geom) for nm in bnames]
                o2 = rec.call(getattr(ms, name), *sc)
                if hasattr(o2, 'exc'):
                    rec.violation(name + '.raises', 'scaled call raised %r' % o2, pay)
                else:
                    d = tol.first_diff_exact(np.asarray(o2.data, dtype='float64'), g)
                    if d is None:
                        rec.ok('nd.pow2_scale')
                    else:
                        rec.violation(name + '.scale', '%s changes when both bands are scaled by 2^%d: %r' % (name, e, d), pay)
            else:
                e = int(rng.integers(0, 3))
                if float(max(a1.max(), a2.max())) * 2 ** e <= np.iinfo(dtype).max:
                    sc = [gen.mk((bands[nm].astype('int64') * (2 ** e)).astype(dtype), **geom) for nm in bnames]
                    o2 = rec.call(getattr(ms, name), *sc)
                    if not hasattr(o2, 'exc') and tol.first_diff_exact(np.asarray(o2.data, dtype='float64'), g) is None:
                        rec.ok('nd.pow2_scale')
                    else:
                        rec.violation(name + '.scale', '%s changes when both integer bands are scaled by 2^%d' % (name, e), pay)
    # parameter validation (soil factor range, negative gain)
    rec.evaluation()
    a = gen.mk(np.ones((2, 2)), **geom)
    for f, kw in ((ms.savi, dict(soil_factor=1.5)), (ms.savi, dict(soil_factor=-1.01)), (ms.evi, dict(soil_factor=2.0)), (ms.evi, dict(gain=-1.0))):
        args = (a, a) if f is ms.savi else (a, a, a)
        r = rec.call(f, *args, **kw)
        if hasattr(r, 'exc'):
            rec.ok('param_validation')
        else:
            rec.violation('param_validation', '%s accepted %r' % (f.__name__, kw), dict(kw=kw))


def _true_color(rec, idx, rng, ms, H, W, geom):
    import dask.array as da
    if H < 2: H = 2
    if W < 2: W = 2
    dtype = str(rng.choice(['uint8', 'uint16', 'int32', 'float32', 'float64', 'int64']))
    bands = {}
    for nm in ('r', 'g', 'b'):
        a = rng.integers(0, 255, (H, W)).astype('float64') * float(rng.choice([1, 1, 10]))
        if rng.random() < 0.5:
            a[rng.random((H, W)) < 0.2] = 0
        if rng.random() < 0.5:
            a[rng.random((H, W)) < 0.2] = 1
        a = a.astype(dtype)
        if np.dtype(dtype).kind == 'f' and rng.random() < 0.6:
            a = gen.sprinkle(a, rng, 0.15, where='random').astype(dtype)
        bands[nm] = a
    kw = {}
    nodata = 1
    if rng.random() < 0.5:
        nodata = float(rng.choice([0, 1, 2, 50, -1])); kw['nodata'] = nodata
    if dtype in ('float64', 'int64') and rng.random() < 0.3:
        # red values a hair above nodata (not distinguishable from it in float32)
        if dtype == 'float64':
            m_ = rng.random((H, W)) < 0.3; bands['r'][m_] = nodata + abs(nodata) * 1e-9 + 1e-9
        else:
            nodata = float(2 ** 24); kw['nodata'] = nodata
            m_ = rng.random((H, W)) < 0.3; bands['r'][m_] = 2 ** 24 + 1; bands['r'][~m_ & (rng.random((H, W)) < 0.3)] = 2 ** 24
    c, th = 10.0, 0.125
    if rng.random() < 0.3:
        c, th = float(rng.choice([5.0, 20.0])), float(rng.choice([0.1, 0.3])); kw.update(c=c, th=th)
    use_dask = idx % 3 == 0
    chunks = gen.random_chunks((H, W), rng) if use_dask else None
    das = [gen.mk(bands[nm], chunks=chunks, attrs={'res': (1, 1)}, **geom) for nm in ('r', 'g', 'b')]
    rec.evaluation()
    out = rec.call(ms.true_color, *das, **kw)
    pay = dict(func='true_color', dtype=dtype, bands=bands, kwargs=kw, dask=use_dask, chunks=chunks)
    if hasattr(out, 'exc'):
        rec.violation('true_color.raises', 'true_color raised %r' % out, pay); return
    data = out.data
    if use_dask:
        if not isinstance(data, da.Array):
            rec.violation('true_color.not_dask', 'Dask input gave %s' % type(data), pay); return
        import warnings
        with warnings.catch_warnings():
            warnings.simplefilter('ignore')
            data = rec.call(data.compute)
        if hasattr(data, 'exc'):
            rec.violation('true_color.dask_raises', 'true_color on Dask raised at compute: %r' % data, pay); return
    got = np.asarray(data)
    pay['got'] = got
    if got.dtype != np.uint8 or got.shape != (H, W, 4):
        rec.violation('true_color.dtype_shape', 'true_color dtype %s shape %s' % (got.dtype, got.shape), pay); return
    r64 = bands['r'].astype('float64')
    exp_alpha = np.where(np.isnan(r64) | (r64 <= nodata), 0, 255)
    rec.nontriv('tc', dtype, bands['r'].tobytes(), bands['g'].tobytes(), repr(kw))
    if len(rec.samples) < 2:
        rec.sample(dict(func='true_color', dtype=dtype, kwargs=kw, red=bands['r'], alpha=got[:, :, 3]))
    if not np.array_equal(got[:, :, 3], exp_alpha):
        i = tuple(int(v) for v in np.argwhere(got[:, :, 3] != exp_alpha)[0])
        rec.violation('true_color.alpha', 'alpha %d at %s where red=%r nodata=%r' % (got[:, :, 3][i], i, r64[i], nodata), pay); return
    rec.ok('true_color.alpha')
    if use_dask:
        rec.ok('dask')
    # channels: sigmoid contrast of the min-max normalised band, judged where the band is finite
    for ch, nm in enumerate(('r', 'g', 'b')):
        b = _f32(bands[nm])
        if not np.isfinite(b).any():
            continue
        mn, mx = np.nanmin(b), np.nanmax(b)
        if mx == mn:
            continue
        with np.errstate(all='ignore'):
            ref = 255.0 / (1 + np.exp(c * (th - (b - mn) / (mx - mn))))
        fin = np.isfinite(b)
        d = np.abs(got[:, :, ch].astype('float64')[fin] - np.floor(ref[fin]))
        if (d > 1).any():
            rec.violation('true_color.channel', 'true_color channel %s differs from the sigmoid-normalised band by more than one level' % nm, pay); return
        rec.ok('true_color.channel')
