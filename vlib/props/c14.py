"""C14 A* returns a valid, shortest path between the cells the caller named."""
import heapq
import itertools
import math
import sys

import numpy as np
import xarray as xr

from vlib.gen import rand_layout as gen_rand_layout

PID = 'C14'
RULE = ("exhaustive: every barrier layout x every (start, goal) cell pair x connectivity {4,8} on 2x2, 2x3, 3x2, 3x3 (thorough: "
        "also 2x4, 4x2 and 3x4 sampled), under integer and fractional coordinate geometries; random mazes up to 10x10 (walls with "
        "gaps, NaN cells, several barrier values), ascending/descending coordinates with steps 1, 0.1, 1/3, 2.5 and offsets, points "
        "given as cell centres or up to +-0.49 cell off-centre, snapping on/off; oracle = Dijkstra + chain validator; non-trivial = "
        "distinct (grid, start, goal, connectivity) whose shortest route is longer than the straight-line distance")
BUDGET = {'quick': 240, 'thorough': 1200}
MODES = {'quick': [('J', 13), ('I', 3)], 'thorough': [('J', 13), ('I', 3)]}
FLOORS = {'quick': {'shortest': 20000, 'no_route_all_nan': 3000, 'detour': 1500, 'snap.nearest': 200, 'fractional_coords': 5000,
                    'offcentre_point': 200, 'modeI.pops_bounded': 300, 'blocked_endpoint_all_nan': 3000, 'two_corridor_near_tie': 25},
          'thorough': {'shortest': 150000, 'detour': 15000, 'snap.nearest': 2000}}
EXHAUSTIVE = {'quick': ['barrier layouts x start x goal x connectivity on 2x2, 2x3, 3x2, 3x3 (3x3: the four coordinate geometries rotate by layout)'],
              'thorough': ['barrier layouts x start x goal x connectivity on 2x2, 2x3, 3x2, 3x3, 2x4, 4x2 under each of four coordinate geometries']}
ASSUMPTIONS = ['corner cutting between diagonal neighbours is allowed (as in the library)', 'points exactly half-way between two '
               'cell centres are not driven (nearest centre ambiguous)', 'mode I (interpreted kernels) supplies witnesses only: pop '
               'count <= H*W is a logical hang bound and is the one verdict taken from it']

GEOMS = [dict(cx=1.0, cy=1.0, x0=0.0, y0=0.0, ydesc=True, xdesc=False),
         dict(cx=0.1, cy=0.1, x0=0.0, y0=0.0, ydesc=False, xdesc=False),
         dict(cx=1 / 3, cy=2.5, x0=-7.5, y0=100.25, ydesc=True, xdesc=False),
         dict(cx=30.0, cy=0.1, x0=5.0, y0=-3.0, ydesc=False, xdesc=True)]


def plan(tier, seed):
    out = []
    shapes = [(2, 2), (2, 3), (3, 2), (3, 3)]
    if tier == 'thorough':
        shapes += [(2, 4), (4, 2)]
    for (h, w) in shapes:
        total = 2 ** (h * w)
        nblk = max(1, total // 8)
        for b in range(nblk):
            out.append(('exh', '%d,%d,%d,%d' % (h, w, b, nblk)))
    if tier == 'thorough':
        for b in range(256):
            out.append(('exh34', b))
    n = 1200 if tier == 'quick' else 8000
    out += [('maze', i) for i in range(n)]
    out += [('snap', i) for i in range(n // 2)]
    # large open grids with a wall and two gaps: two competing routes whose costs differ by little (admissibility of the heuristic)
    out += [('twogap', i) for i in range(160 if tier == 'quick' else 1500)]
    # two one-cell-wide corridors whose costs differ by a small a*sqrt(2)-b (convergents of sqrt 2) with a long straight final run
    out += [('corridor', i) for i in range(64 if tier == 'quick' else 600)]
    return out


def shard_filter(descs, shard, nshards, mode):
    if mode == 'I':
        descs = [d for d in descs if d[0] in ('maze', 'snap') or (d[0] == 'exh' and d[1].startswith(('2,2', '2,3')))]
    else:
        pass
    if mode == 'I':
        descs = [d for d in descs if d[0] not in ('twogap', 'corridor')]
    return [d for i, d in enumerate(descs) if i % nshards == shard]


# ---------------- reference ---------------------------------------------
def dijkstra_all(ok, s, conn):
    h, w = ok.shape
    if not ok[s]:
        return {}
    nb = [(-1, 0), (1, 0), (0, -1), (0, 1)] + ([(-1, -1), (-1, 1), (1, -1), (1, 1)] if conn == 8 else [])
    dist = {s: 0.0}; pq = [(0.0, s)]
    while pq:
        d, (y, x) = heapq.heappop(pq)
        if d > dist[(y, x)]:
            continue
        for dy, dx in nb:
            yy, xx = y + dy, x + dx
            if 0 <= yy < h and 0 <= xx < w and ok[yy, xx]:
                nd = d + (1.0 if dy == 0 or dx == 0 else math.sqrt(2.0))
                if nd < dist.get((yy, xx), 1e18) - 1e-12:
                    dist[(yy, xx)] = nd; heapq.heappush(pq, (nd, (yy, xx)))
    return dist


def chain_error(out, ok, conn):
    """Validate that non-NaN cells form one chain 0 -> max; return (err, start, goal)."""
    cells = [tuple(int(v) for v in c) for c in np.argwhere(~np.isnan(out))]
    if not cells:
        return 'empty', None, None
    cells.sort(key=lambda c: out[c])
    if out[cells[0]] != 0:
        return 'no cell with value 0', None, None
    for a, b in zip(cells, cells[1:]):
        dy, dx = abs(a[0] - b[0]), abs(a[1] - b[1])
        if max(dy, dx) != 1 or (conn == 4 and dy + dx != 1):
            return 'step from %s to %s is not a %d-neighbour move' % (a, b, conn), cells[0], cells[-1]
        if abs(out[b] - out[a] - math.hypot(dy, dx)) > 1e-9:
            return 'step %s->%s adds %r, not its length' % (a, b, out[b] - out[a]), cells[0], cells[-1]
    for c in cells:
        if not ok[c]:
            return 'path enters non-crossable cell %s' % (c,), cells[0], cells[-1]
    return None, cells[0], cells[-1]


def nearest_set(ok, p):
    if ok[p]:
        return {p}
    best, bs = None, set()
    for c in map(tuple, np.argwhere(ok)):
        d = math.hypot(c[0] - p[0], c[1] - p[1])
        if best is None or d < best - 1e-12:
            best, bs = d, {(int(c[0]), int(c[1]))}
        elif abs(d - best) <= 1e-12:
            bs.add((int(c[0]), int(c[1])))
    return bs


# ---------------- mode I witnesses -----------------------------------------
class TooManyPops(Exception):
    pass


_W = {'pops': 0, 'limit': 0, 'last_f': None, 'decreases': 0}


def setup_worker(rec):
    if rec.mode != 'I':
        return
    PF = sys.modules['xrspatial.pathfinding']
    orig = PF._min_cost_pixel_id

    def wrapped(cost, is_open):
        py, px = orig(cost, is_open)
        _W['pops'] += 1
        if _W['pops'] > _W['limit']:
            raise TooManyPops('more than H*W+1 pops')
        if py >= 0:
            f = float(cost[py, px])
            if _W['last_f'] is not None and f < _W['last_f'] - 1e-9:
                _W['decreases'] += 1
            _W['last_f'] = f
        return py, px
    PF._min_cost_pixel_id = wrapped


def _search(rec, surface, start, goal, **kw):
    from xrspatial import a_star_search
    H, W = surface.shape
    _W.update(pops=0, limit=H * W + 1, last_f=None, decreases=0)
    out = rec.call(a_star_search, surface, start, goal, **kw)
    if rec.mode == 'I':
        rec.mx('modeI.max_pops', _W['pops'])
        if _W['decreases']:
            rec.cls('modeI.witness.f_decreased_on_pop', _W['decreases'])
        if not (hasattr(out, 'exc') and isinstance(out.exc, TooManyPops)):
            rec.ok('modeI.pops_bounded')
    return out


def judge(rec, grid, ok, conn, out, sE, gE, snap_s, snap_g, pay, frac=False, offc=False):
    """grid: data; ok: crossable mask; sE,gE: cells the caller named."""
    H, W = grid.shape
    if hasattr(out, 'exc'):
        if isinstance(out.exc, TooManyPops):
            rec.violation('astar.unbounded_search', 'search popped more than H*W cells (logical hang bound)', pay)
        else:
            rec.violation('astar.raises', 'a_star_search raised %r' % out, pay)
        return
    res = np.asarray(out.data, dtype='float64')
    pay = dict(pay, got=res)
    if res.shape != grid.shape:
        rec.violation('astar.shape', 'output shape %s' % (res.shape,), pay); return
    S = nearest_set(ok, sE) if snap_s else {sE}
    G = nearest_set(ok, gE) if snap_g else {gE}
    allnan = np.isnan(res).all()
    blocked = (not snap_s and not ok[sE]) or (not snap_g and not ok[gE]) or not S or not G
    if blocked:
        if allnan:
            rec.ok('blocked_endpoint_all_nan')
        else:
            rec.violation('astar.path_from_blocked_endpoint', 'non-NaN output although an end point is not crossable and snapping is off', pay)
        return
    routes = {}
    for s in S:
        dist = dijkstra_all(ok, s, conn)
        for g in G:
            routes[(s, g)] = dist.get(g)
    if allnan:
        if any(v is None for v in routes.values()):
            rec.ok('no_route_all_nan')
        else:
            # classify: which end point did the library fail to use?
            mech = 'astar.no_path_found'
            if (snap_s and not ok[sE]) or (snap_g and not ok[gE]):
                # known mechanism: sole nearest crossable at exactly the raster-diagonal distance
                diag = math.hypot(H - 1, W - 1)
                for (p, sn, cand) in ((sE, snap_s, S), (gE, snap_g, G)):
                    if sn and not ok[p] and all(abs(math.hypot(c[0] - p[0], c[1] - p[1]) - diag) < 1e-12 for c in cand):
                        mech = 'astar.snap_misses_cell_at_diagonal_distance'
            rec.violation(mech, 'all-NaN output although a route of length %r exists from %s to %s' %
                          (min(v for v in routes.values()), sorted(S), sorted(G)), pay)
        return
    err, s_used, g_used = chain_error(res, ok, conn)
    if err:
        rec.violation('astar.invalid_chain', 'non-NaN cells are not a valid chain: %s' % err, pay); return
    if s_used not in S or g_used not in G:
        # mechanism classifier for the truncation defect: used cell = floor instead of nearest
        mech = 'astar.wrong_endpoint_cell'
        if pay.get('floor_cells') and (s_used, g_used) == tuple(pay['floor_cells']) and not snap_s and not snap_g:
            mech = 'astar.coordinate_truncated_to_lower_cell'
        rec.violation(mech, 'path runs %s -> %s but the caller named %s -> %s (nearest centres%s)' %
                      (s_used, g_used, sorted(S), sorted(G), ', after snapping' if (snap_s or snap_g) else ''), pay)
        return
    rec.ok('endpoints')
    ref = routes[(s_used, g_used)]
    if ref is None:
        rec.violation('astar.path_without_route', 'path reported although no route exists', pay); return
    if abs(res[g_used] - ref) > 1e-9:
        rec.violation('astar.not_shortest', 'goal value %r but the shortest route has length %r' % (float(res[g_used]), ref), pay); return
    rec.ok('shortest'); rec.ok('conn%d' % conn)
    straight = math.hypot(s_used[0] - g_used[0], s_used[1] - g_used[1]) if conn == 8 else abs(s_used[0] - g_used[0]) + abs(s_used[1] - g_used[1])
    octile = None
    if conn == 8:
        dy, dx = abs(s_used[0] - g_used[0]), abs(s_used[1] - g_used[1])
        octile = max(dy, dx) - min(dy, dx) + math.sqrt(2) * min(dy, dx)
    free = octile if conn == 8 else straight
    if ref > free + 1e-9:
        rec.ok('detour')
        rec.nontriv(grid.shape, conn, ok.tobytes(), s_used, g_used)
    if frac:
        rec.ok('fractional_coords')
    if offc:
        rec.ok('offcentre_point')
    if (snap_s and not ok[sE]) or (snap_g and not ok[gE]):
        rec.ok('snap.nearest')


def _surface(grid, geom, names=('y', 'x'), res=False):
    H, W = grid.shape
    ys = geom['y0'] + geom['cy'] * np.arange(H); xs = geom['x0'] + geom['cx'] * np.arange(W)
    if geom['ydesc']: ys = ys[::-1].copy()
    if geom['xdesc']: xs = xs[::-1].copy()
    attrs = {'res': (geom['cx'], geom['cy'])} if res else {}
    return xr.DataArray(grid, dims=list(names), coords={names[0]: ys, names[1]: xs}, attrs=attrs), ys, xs


def _floor_cell(p, ys, xs, geom):
    return (int(abs(p[0] - ys[0]) / geom['cy']), int(abs(p[1] - xs[0]) / geom['cx']))


def check(rec, kind, idx, rng, tier):
    if kind == 'exh':
        h, w, b, nblk = map(int, idx.split(','))
        total = 2 ** (h * w)
        lo = total * b // nblk; hi = total * (b + 1) // nblk
        cells = list(itertools.product(range(h), range(w)))
        for bits in range(lo, hi):
            grid = np.array([(bits >> i) & 1 for i in range(h * w)], dtype='float64').reshape(h, w)
            ok = grid == 0
            geoms = GEOMS if (tier == 'thorough' or h * w <= 6) else [GEOMS[bits % 4]]
            for gi, geom in enumerate(geoms):
                surf, ys, xs = _surface(grid, geom)
                frac = geom['cx'] != 1.0
                for s in cells:
                    for g in cells:
                        for conn in (4, 8):
                            rec.evaluation()
                            ps = (ys[s[0]], xs[s[1]]); pg = (ys[g[0]], xs[g[1]])
                            out = _search(rec, surf, ps, pg, barriers=[1], connectivity=conn)
                            pay = dict(grid=grid, barriers=[1], start_cell=s, goal_cell=g, start=ps, goal=pg, connectivity=conn, geom=geom,
                                       floor_cells=[_floor_cell(ps, ys, xs, geom), _floor_cell(pg, ys, xs, geom)])
                            if bits == 5 and s == (0, 0) and g == cells[-1] and conn == 8 and gi == 0:
                                rec.sample(pay)
                            judge(rec, grid, ok, conn, out, s, g, False, False, pay, frac=frac)
        return
    if kind == 'exh34':
        h, w = 3, 4
        cells = list(itertools.product(range(h), range(w)))
        for bits in range(idx * 16, idx * 16 + 16):
            grid = np.array([(bits >> i) & 1 for i in range(h * w)], dtype='float64').reshape(h, w)
            ok = grid == 0
            geom = GEOMS[bits % 4]
            surf, ys, xs = _surface(grid, geom)
            for s in cells:
                for g in cells:
                    for conn in (4, 8):
                        rec.evaluation()
                        ps = (ys[s[0]], xs[s[1]]); pg = (ys[g[0]], xs[g[1]])
                        out = _search(rec, surf, ps, pg, barriers=[1], connectivity=conn)
                        pay = dict(grid=grid, barriers=[1], start_cell=s, goal_cell=g, start=ps, goal=pg, connectivity=conn, geom=geom,
                                   floor_cells=[_floor_cell(ps, ys, xs, geom), _floor_cell(pg, ys, xs, geom)])
                        judge(rec, grid, ok, conn, out, s, g, False, False, pay, frac=geom['cx'] != 1.0)
        return
    if kind == 'corridor':
        d_, e_ = [(5, 13), (7, 18), (12, 30), (3, 8), (17, 42), (2, 6)][int(rng.integers(0, 6))]      # (d+e-1)*sqrt2 ~ 2e-2: convergents 17/24, 24/34, 41/58, 10/14, 58/82, 7/10
        a_ = int(e_ - d_ + rng.integers(0, 6)); L = int(d_ + e_ + rng.integers(2, 60))
        H, W = a_ + d_ + 2, L + 1
        blocked = np.ones((H, W), dtype=bool)
        blocked[0:a_ + 1, 0] = False; blocked[0, :] = False
        r_, c_ = a_, 0
        for _ in range(d_):
            r_ += 1; c_ += 1; blocked[r_, c_] = False
        while c_ < L - e_:
            c_ += 1; blocked[r_, c_] = False
        for _ in range(e_):
            r_ -= 1; c_ += 1; blocked[r_, c_] = False
        blocked[0:r_ + 1, L] = False
        s, g = (a_, 0), (0, L)
        grid = blocked.astype('float64')
        tr = int(rng.integers(0, 4))
        if tr & 1:
            grid = grid[:, ::-1].copy(); s = (s[0], W - 1 - s[1]); g = (g[0], W - 1 - g[1])
        if tr & 2:
            grid = grid.T.copy(); s = (s[1], s[0]); g = (g[1], g[0])
        if rng.random() < 0.5:
            s, g = g, s
        ok = grid == 0
        geom = dict(cx=1.0, cy=1.0, x0=0.0, y0=0.0, ydesc=False, xdesc=False)
        surf, ys, xs = _surface(grid, geom)
        rec.evaluation()
        ps = (ys[s[0]], xs[s[1]]); pg = (ys[g[0]], xs[g[1]])
        out = _search(rec, surf, ps, pg, barriers=[1], connectivity=8)
        pay = dict(grid_shape=grid.shape, corridor_params=dict(a=a_, d=d_, e=e_, L=L, transform=tr), barriers=[1], start_cell=s, goal_cell=g, connectivity=8, style='two corridors')
        judge(rec, grid, ok, 8, out, s, g, False, False, pay)
        rec.cls('maze.corridor'); rec.ok('two_corridor_near_tie')
        return
    if kind == 'twogap':
        H, W = int(rng.integers(15, 36)), int(rng.integers(30, 61))
        grid = np.zeros((H, W))
        nwalls = int(rng.integers(1, 3))
        for wi in range(nwalls):
            col = int(rng.integers(5, W - 5))
            grid[:, col] = 1
            for g_ in rng.choice(np.arange(H), size=2, replace=False):
                grid[int(g_), col] = 0
        if rng.random() < 0.5:
            grid[rng.random((H, W)) < 0.03] = 1
        ok = grid == 0
        geom = dict(cx=1.0, cy=1.0, x0=0.0, y0=0.0, ydesc=True, xdesc=False)
        surf, ys, xs = _surface(grid, geom)
        cells_l = [(r_, 0) for r_ in range(H) if ok[r_, 0]]; cells_r = [(r_, W - 1) for r_ in range(H) if ok[r_, W - 1]]
        if not cells_l or not cells_r:
            rec.rej('twogap.no_free_border_cell'); return
        for q in range(3):
            s = cells_l[int(rng.integers(0, len(cells_l)))]; g = cells_r[int(rng.integers(0, len(cells_r)))]
            conn = 8 if rng.random() < 0.8 else 4
            rec.evaluation()
            ps = (ys[s[0]], xs[s[1]]); pg = (ys[g[0]], xs[g[1]])
            out = _search(rec, surf, ps, pg, barriers=[1], connectivity=conn)
            pay = dict(grid=grid, barriers=[1], start_cell=s, goal_cell=g, start=ps, goal=pg, connectivity=conn, geom=geom, style='twogap')
            judge(rec, grid, ok, conn, out, s, g, False, False, pay)
            rec.cls('maze.twogap')
        return
    # ---- random mazes / snapping ---------------------------------------
    H, W = int(rng.integers(2, 11)), int(rng.integers(2, 11))
    one_d = rng.random() < 0.08
    if one_d:
        if rng.random() < 0.5: H = 1
        else: W = 1
    grid = np.zeros((H, W))
    style = str(rng.choice(['walls', 'noise', 'open', 'dense']))
    if style == 'walls':
        for r in range(1, H, 2):
            grid[r, :] = 1
            gaps = rng.integers(0, W, size=int(rng.integers(1, 3)))
            grid[r, gaps] = 0
        if rng.random() < 0.5 and H > 1 and W > 1:
            grid = grid.T.copy() if grid.T.shape == (H, W) else grid
    elif style == 'noise':
        grid = (rng.random((H, W)) < 0.3).astype(float)
    elif style == 'dense':
        grid = (rng.random((H, W)) < 0.6).astype(float)
    barrier_vals = [1]
    if rng.random() < 0.4:
        # several barrier values + harmless other values
        m = grid == 1
        grid[m] = rng.choice([1, 5, 7], size=grid.shape)[m]
        barrier_vals = [1, 5, 7]
        grid[~m] = rng.choice([0, 2, 3], size=grid.shape)[~m]
    dt = str(rng.choice(['float64', 'float64', 'float32', 'int32', 'int64']))
    if dt in ('float64', 'int64', 'int32') and rng.random() < 0.25:
        # class codes of large magnitude that differ by one: a barrier is a value, not a neighbourhood of values
        grid = grid + 200000; barrier_vals = [int(b) + 200000 for b in barrier_vals]; rec.cls('maze.large_codes')
    g2 = grid.astype(dt)
    if g2.dtype.kind == 'f' and rng.random() < 0.4:
        m = rng.random((H, W)) < 0.1
        g2[m] = np.nan
    if g2.dtype.kind == 'f' and rng.random() < 0.3:
        # infinite cells (saturated sensors, 1/0 friction) are values like any other: walkable unless listed as barriers
        m = rng.random((H, W)) < 0.15
        g2[m] = rng.choice([np.inf, -np.inf], size=g2.shape)[m]; rec.cls('maze.infinite_cells')
    if g2.dtype.kind in 'iu' and rng.random() < 0.4:
        # barrier values the integer surface cannot hold (fractional codes from a shared legend): they match no cell
        walk = [v for v in np.unique(g2).tolist() if v not in barrier_vals]
        if walk:
            barrier_vals = list(barrier_vals) + [float(walk[int(rng.integers(0, len(walk)))]) + float(rng.choice([0.5, 0.25, -0.5]))]; rec.cls('maze.unrepresentable_barrier')
    ok = ~np.isin(g2.astype('float64'), barrier_vals) & ~np.isnan(g2.astype('float64'))
    geom = dict(cx=float(rng.choice([1.0, 0.1, 1 / 3, 2.5, 30.0, 0.7])), cy=float(rng.choice([1.0, 0.1, 1 / 3, 2.5, 30.0, 0.7])),
                x0=float(rng.choice([0.0, 10.0, -7.5, 100.25])), y0=float(rng.choice([0.0, 5.0, -3.25, 1000.5])),
                ydesc=bool(rng.random() < 0.5), xdesc=bool(rng.random() < 0.2))
    names = ('y', 'x') if rng.random() < 0.7 else ('lat', 'lon')
    surf, ys, xs = _surface(gen_rand_layout(g2, rng), geom, names, res=one_d or rng.random() < 0.2)
    cells = list(itertools.product(range(H), range(W)))
    okc = [c for c in cells if ok[c]]
    nq = 6
    for q in range(nq):
        rec.evaluation()
        if kind == 'maze':
            pool = okc if (okc and rng.random() < 0.85) else cells
            s = pool[int(rng.integers(0, len(pool)))]; g = pool[int(rng.integers(0, len(pool)))]
            snap_s = snap_g = False
            if rng.random() < 0.15:
                snap_s, snap_g = bool(rng.random() < 0.5), bool(rng.random() < 0.5)
        else:
            blk = [c for c in cells if not ok[c]] or cells
            s = blk[int(rng.integers(0, len(blk)))] if rng.random() < 0.7 else cells[int(rng.integers(0, len(cells)))]
            g = blk[int(rng.integers(0, len(blk)))] if rng.random() < 0.5 else cells[int(rng.integers(0, len(cells)))]
            snap_s, snap_g = bool(rng.random() < 0.8), bool(rng.random() < 0.8)
        offc = rng.random() < 0.4
        oy, ox, py_, px_ = 0.0, 0.0, 0.0, 0.0
        if offc:
            oy, ox, py_, px_ = (float(v) for v in rng.uniform(-0.49, 0.49, 4))
        # keep off-centre points on the raster side of the first coordinate (|p - c0| is what the API measures)
        def pt(c, dy, dx):
            sy = -1.0 if geom['ydesc'] else 1.0; sx = -1.0 if geom['xdesc'] else 1.0
            if c[0] == 0 and dy < 0: dy = -dy
            if c[1] == 0 and dx < 0: dx = -dx
            return (ys[c[0]] + sy * dy * geom['cy'], xs[c[1]] + sx * dx * geom['cx'])
        ps = pt(s, oy, ox); pg = pt(g, py_, px_)
        conn = int(rng.choice([4, 8]))
        kw = dict(barriers=list(barrier_vals), connectivity=conn)
        if names != ('y', 'x'):
            kw.update(x=names[1], y=names[0])
        if snap_s: kw['snap_start'] = True
        if snap_g: kw['snap_goal'] = True
        if conn == 8 and rng.random() < 0.3:
            kw.pop('connectivity')
        out = _search(rec, surf, ps, pg, **kw)
        pay = dict(grid=g2, barriers=barrier_vals, start_cell=s, goal_cell=g, start=ps, goal=pg, connectivity=conn, geom=geom,
                   dims=names, snap_start=snap_s, snap_goal=snap_g, style=style,
                   floor_cells=[_floor_cell(ps, ys, xs, geom), _floor_cell(pg, ys, xs, geom)])
        rec.cls('maze.' + style); rec.cls('dtype.' + dt)
        if idx == 0 and q == 0:
            rec.sample(pay)
        judge(rec, g2, ok, conn, out, s, g, snap_s, snap_g, pay, frac=(geom['cx'] not in (1.0, 30.0, 2.5) or geom['cy'] not in (1.0, 30.0, 2.5)), offc=offc)
