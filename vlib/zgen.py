"""Generators of zones / values rasters and id selections for the zonal monitors (C02, C03, C04)."""
import numpy as np

from vlib import gen


def zones_raster(rng, H, W, allow_inf=True, max_zones=6):
    kind = str(rng.choice(['int_small', 'int_neg', 'float_frac', 'int8', 'blocks', 'single_cells', 'columns']))
    nz = int(rng.integers(1, max_zones + 1))
    if kind == 'int_small':
        ids = rng.choice(np.arange(0, 12), size=nz, replace=False)
        z = rng.choice(ids, size=(H, W)).astype(str(rng.choice(['int32', 'int64'])))
    elif kind == 'int_neg':
        ids = rng.choice(np.arange(-6, 7), size=nz, replace=False)
        z = rng.choice(ids, size=(H, W)).astype(str(rng.choice(['int64', 'float64'])))
    elif kind == 'float_frac':
        ids = rng.choice(np.array([0.5, -1.25, 3.0, 7.75, -0.5, 2.5, 100.125, 0.0]), size=min(nz, 8), replace=False)
        z = rng.choice(ids, size=(H, W)).astype(str(rng.choice(['float64', 'float32'])))
    elif kind == 'int8':
        ids = rng.choice(np.arange(0, 5), size=min(nz, 5), replace=False)
        z = rng.choice(ids, size=(H, W)).astype(str(rng.choice(['int8', 'uint8', 'int16'])))
    elif kind == 'blocks':
        z = np.zeros((H, W), dtype='float64')
        for k in range(nz):
            r0, c0 = int(rng.integers(0, H)), int(rng.integers(0, W))
            z[r0:r0 + int(rng.integers(1, H + 1)), c0:c0 + int(rng.integers(1, W + 1))] = 10 * (k + 1)
        z = z.astype(str(rng.choice(['int32', 'float64'])))
    elif kind == 'single_cells':
        z = np.zeros((H, W), dtype='float64')
        for k in range(nz):
            z[int(rng.integers(0, H)), int(rng.integers(0, W))] = k + 1
        z = z.astype(str(rng.choice(['int64', 'float64'])))
    else:
        z = np.tile((np.arange(W) * nz // max(W, 1)) * 10, (H, 1)).astype(str(rng.choice(['int32', 'float64'])))
    nonfinite = 'none'
    if z.dtype.kind == 'f':
        p = rng.random()
        if p < 0.3:
            z[rng.random((H, W)) < 0.15] = np.nan; nonfinite = 'nan'
        elif p < 0.45 and allow_inf:
            z[rng.random((H, W)) < 0.1] = np.inf; nonfinite = '+inf'
        elif p < 0.6 and allow_inf:
            z[rng.random((H, W)) < 0.1] = -np.inf; nonfinite = '-inf'
        elif p < 0.7 and allow_inf:
            m = rng.random((H, W))
            z[m < 0.08] = -np.inf; z[(m >= 0.08) & (m < 0.16)] = np.nan; z[(m >= 0.16) & (m < 0.22)] = np.inf; nonfinite = 'mixed'
    return kind, nonfinite, z


def values_raster(rng, H, W, categorical=False, int_overflow=False):
    if categorical:
        alpha = rng.choice(np.array([0, 1, 2, 5, 10, 20, 30, -3, 7]), size=int(rng.integers(1, 6)), replace=False)
        dt = str(rng.choice(['int32', 'int64', 'float64', 'float32', 'uint8' if (alpha >= 0).all() else 'int16']))
        v = rng.choice(alpha, size=(H, W)).astype(dt)
        kind = 'cat.' + dt
    else:
        kind = str(rng.choice(['int8', 'uint8', 'int16', 'uint16', 'int32', 'int64', 'uint64', 'float32', 'float64', 'float64_offset', 'const', 'int64_big']))
        if kind in ('int8', 'uint8', 'int16', 'uint16', 'int32', 'int64', 'uint64'):
            info = np.iinfo(kind)
            hi = min(info.max, 300 if not int_overflow else info.max)
            lo = max(info.min, -300 if not int_overflow else -(2 ** 20))
            if int_overflow and kind in ('int32', 'int64', 'uint64'):
                lo, hi = max(info.min, -70000), 70000          # squares overflow int32; sums stay exact
            v = rng.integers(lo, hi + 1, size=(H, W)).astype(kind)
        elif kind == 'int64_big':
            v = (100000000 + rng.integers(0, 1000, size=(H, W)) * 2 + 1).astype('int64')      # statistics that float32 cannot hold
        elif kind == 'float32':
            v = rng.uniform(-50, 50, (H, W)).astype('float32')
        elif kind == 'float64':
            v = rng.uniform(-50, 50, (H, W))
        elif kind == 'float64_offset':
            v = 1000.0 + rng.uniform(-1, 1, (H, W))
        else:
            v = np.full((H, W), float(rng.integers(-3, 9)))
    vnf = 'none'
    if v.dtype.kind == 'f':
        p = rng.random()
        if p < 0.35:
            v[rng.random((H, W)) < 0.15] = np.nan; vnf = 'nan'
        elif p < 0.5:
            m = rng.random((H, W)); v[m < 0.1] = np.nan; v[(m >= 0.1) & (m < 0.15)] = np.inf; v[(m >= 0.15) & (m < 0.2)] = -np.inf; vnf = 'nan+inf'
    return kind, vnf, v


def nodata_choice(rng, zones, values):
    p = rng.random()
    vf = values[np.isfinite(values.astype('float64'))]
    if p < 0.35 or len(vf) == 0:
        return 'none', None
    if p < 0.65:
        return 'present', vf[int(rng.integers(0, len(vf)))].item()
    if p < 0.8:
        if values.dtype.kind in 'iu' and rng.random() < 0.5:
            # a nodata value the raster's integer type cannot hold (fractional, or out of range by a multiple of 2^bits): it
            # equals no cell, although a cast to the raster's dtype would turn it into a value that is present
            v = float(vf[int(rng.integers(0, len(vf)))])
            bits = 8 * values.dtype.itemsize
            if bits <= 32 and rng.random() < 0.5:
                return 'absent_unrepresentable', v + float(rng.choice([-1, 1])) * 2.0 ** bits
            return 'absent_unrepresentable', v + 0.5
        return 'absent', -98765
    zf = zones[np.isfinite(zones.astype('float64'))]
    if len(zf):
        c = zf[int(rng.integers(0, len(zf)))].item()
        if values.dtype.kind in 'iu' and (c != int(c) or c < np.iinfo(values.dtype).min or c > np.iinfo(values.dtype).max):
            return 'absent', -98765
        return 'equals_zone_id', (int(c) if values.dtype.kind in 'iu' else c)
    return 'none', None


def id_selection(rng, present, absent_pool=(42, -9, 1234.5)):
    """Returns (label, list-or-None). present: array of ids that exist."""
    p = rng.random()
    present = [x.item() if hasattr(x, 'item') else x for x in present]
    if p < 0.35:
        return 'all', None
    pool = list(present) + [a for a in absent_pool if rng.random() < 0.5]
    perm = [pool[i] for i in rng.permutation(len(pool))]
    k = int(rng.integers(1, len(perm) + 1))
    sel = perm[:k]
    if not any(s in present for s in sel):
        if p < 0.45:
            return 'none_present', sel
        sel = sel + [present[int(rng.integers(0, len(present)))]]
    label = 'subset'
    if sel != sorted(sel):
        label = 'unsorted'
    if any(s not in present for s in sel):
        label += '+absent'
    return label, sel
