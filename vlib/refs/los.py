"""O(n^2) evaluation of the line-of-sight model that xrspatial.viewshed implements (C05).

Every cell spans the bearings between its entering and exiting corner (index space, observer at the centre of its
cell); its gradient is interpolated linearly corner -> centre -> corner; corner elevation = mean of the four cells
meeting at the corner (own elevation at the raster edge). A target cell is visible iff no cell with strictly smaller
squared distance whose span contains the target's centre bearing has a greater gradient than the target's own
(target-raised) gradient. The model is evaluated twice: strictest and most lenient reading of span boundaries and
gradient ties; a cell is judged only when both readings agree.
"""
import math

import numpy as np

PI = math.pi


def event_pos(kind, r, c, vr, vc):
    if kind == 0:
        return float(r), float(c)
    E = kind == 1
    if r < vr and c < vc: return (r - 0.5, c + 0.5) if E else (r + 0.5, c - 0.5)
    if r < vr and c == vc: return (r + 0.5, c + 0.5) if E else (r + 0.5, c - 0.5)
    if r < vr and c > vc: return (r + 0.5, c + 0.5) if E else (r - 0.5, c - 0.5)
    if r == vr and c > vc: return (r + 0.5, c - 0.5) if E else (r - 0.5, c - 0.5)
    if r > vr and c > vc: return (r + 0.5, c - 0.5) if E else (r - 0.5, c + 0.5)
    if r > vr and c == vc: return (r - 0.5, c - 0.5) if E else (r - 0.5, c + 0.5)
    if r > vr and c < vc: return (r - 0.5, c - 0.5) if E else (r + 0.5, c + 0.5)
    if r == vr and c < vc: return (r - 0.5, c + 0.5) if E else (r + 0.5, c + 0.5)


def angle(ex, ey, vx, vy):
    if vx == ex and vy > ey: return PI / 2
    if vx == ex and vy < ey: return PI * 3.0 / 2.0
    if ex == vx and ey == vy: return 0.0
    if vy == ey and ex > vx: return 0.0
    if vx > ex and vy == ey: return PI
    a = math.atan(abs(ey - vy) / abs(ex - vx))
    if ex > vx and ey < vy: return a
    if vx > ex and vy > ey: return PI - a
    if vx > ex and vy < ey: return PI + a
    if vx < ex and vy < ey: return PI * 2.0 - a
    return 0.0


def grad(y, x, elev, vr, vc, velev, ew, ns):
    d = elev - velev; dx = (x - vc) * ew; dy = (y - vr) * ns; d2 = dx * dx + dy * dy
    if d2 == 0:
        return PI / 2 if d > 0 else (-PI / 2 if d < 0 else 0.0)
    return math.atan(d / math.sqrt(d2))


def corner_elev(kind, r, c, vr, vc, Z):
    H, W = Z.shape
    y, x = event_pos(kind, r, c, vr, vc)
    r1 = int(round(r + 2 * (y - r))); c1 = int(round(c + 2 * (x - c)))
    if 0 <= r1 < H and 0 <= c1 < W:
        vals = [Z[r1, c1], Z[r1, c], Z[r, c1], Z[r, c]]
        if not any(np.isnan(v) for v in vals):
            return (vals[0] + vals[1] + vals[2] + vals[3]) / 4.0
    return Z[r, c]


def vert_ang(velev, d2, elev):
    diff = velev - elev
    if diff == 0.0: return 90.0
    if diff > 0: return math.atan(math.sqrt(d2) / diff) * 180 / PI
    return math.atan(abs(diff) / math.sqrt(d2)) * 180 / PI + 90


def reference(Z, vr, vc, obs, tgt, ew, ns, eps=1e-9):
    """returns (vis_lo, vis_hi, vang): visible under the strictest / the most lenient reading, vertical angle."""
    Z = np.asarray(Z, dtype=np.float64); H, W = Z.shape
    velev = Z[vr, vc] + obs; vt = tgt if tgt > 0 else 0.0
    cells = []
    for r in range(H):
        for c in range(W):
            if (r, c) == (vr, vc):
                continue
            ye, xe = event_pos(1, r, c, vr, vc); yx, xx = event_pos(-1, r, c, vr, vc)
            a0 = angle(xe, ye, vc, vr); a1 = angle(c, r, vc, vr); a2 = angle(xx, yx, vc, vr)
            g0 = grad(ye, xe, corner_elev(1, r, c, vr, vc, Z), vr, vc, velev, ew, ns)
            g1 = grad(r, c, Z[r, c], vr, vc, velev, ew, ns)
            g2 = grad(yx, xx, corner_elev(-1, r, c, vr, vc, Z), vr, vc, velev, ew, ns)
            dx = (c - vc) * ew; dy = (r - vr) * ns; key = dx * dx + dy * dy
            gt = grad(r, c, Z[r, c] + vt, vr, vc, velev, ew, ns)
            if r == vr and c > vc:
                spans = [(a0 - 2 * PI, a1, a2), (a0, a1 + 2 * PI, a2 + 2 * PI)]
            else:
                if a0 > a1:
                    spans = [(a0 - 2 * PI, a1, a2)] if a0 < PI else [(a0, a1 + 2 * PI, a2 + 2 * PI)]
                else:
                    spans = [(a0, a1, a2)]
            cells.append((r, c, a1, key, (g0, g1, g2), gt, spans, Z[r, c] + vt))
    lo = np.full((H, W), False); hi = np.full((H, W), False); va = np.full((H, W), np.nan)
    lo[vr, vc] = hi[vr, vc] = True; va[vr, vc] = 180
    nblock = np.zeros((H, W), dtype=int)
    for t in cells:
        tr, tc, ang, tkey, _, tgt_g, _, telev = t
        mx_strict = -1e30; mx_len = -1e30; nb = 0
        for b in cells:
            if b is t or not (b[3] < tkey):
                continue
            for (s0, s1, s2) in b[6]:
                if s0 <= ang <= s2:
                    g0, g1, g2 = b[4]
                    if ang < s1: cg = g1 + (g0 - g1) * (s1 - ang) / (s1 - s0)
                    elif ang > s1: cg = g1 + (g2 - g1) * (ang - s1) / (s2 - s1)
                    else: cg = g1
                    mx_len = max(mx_len, cg)
                    nb += 1
                    if s0 + eps < ang < s2 - eps:
                        mx_strict = max(mx_strict, cg)
        hi[tr, tc] = mx_strict <= tgt_g + eps
        lo[tr, tc] = mx_len <= tgt_g - eps
        va[tr, tc] = vert_ang(velev, tkey, telev)
        nblock[tr, tc] = nb
    return lo, hi, va, nblock
