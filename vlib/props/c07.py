"""C07 Chunked proximity equals whole-raster proximity."""
import numpy as np
import xarray as xr

from vlib import gen, tol
from vlib.refs import nearest as nr

PID = 'C07'
RULE = ("rasters 2x2..12x12 with random target layouts plus targets planted exactly on the halo edge of a chunk border (inside / "
        "outside by one cell); random chunk compositions (1-cell chunks, ragged, single block); max_distance in {0.4, 1, 1.5, 2, 2.5, "
        "3.7, 5} x cell, >= raster extent, inf; cx != cy; EUCLIDEAN/MANHATTAN/GREAT_CIRCLE; proximity, allocation, direction; "
        "schedulers synchronous and threads x 1/2/4/16; exact comparison with the NumPy result; non-trivial = distinct (layout, "
        "chunking, max_distance, geometry, function) with >= 2 blocks and a target whose nearest cells lie in another block")
BUDGET = {'quick': 300, 'thorough': 1200}
MODES = {'quick': [('J', 8), ('I', 8)], 'thorough': [('J', 8), ('I', 8)]}
FLOORS = {'quick': {'dask_equals_numpy': 350, 'multi_block': 250, 'cx!=cy': 100, 'target_on_halo_edge': 60, 'single_block_fallback': 40,
                    'scheduler.threads': 100, 'stays_dask': 400, 'fraction_of_a_cell': 30, 'zero_as_explicit_target': 60},
          'thorough': {'dask_equals_numpy': 4000, 'multi_block': 3000}}
ASSUMPTIONS = ['domain (stated in the property): halo depth in cells <= raster height/width; otherwise Dask raises ValueError and the case is counted as rejected',
               'interpreted-mode workers run the same kernel source under CPython (no per-call JIT) to multiply the number of chunkings driven; compiled-mode workers cover the same kinds']


def plan(tier, seed):
    n = 1400 if tier == 'quick' else 16000
    return [('rand', i) for i in range(n)]


def shard_filter(descs, shard, nshards, mode):
    if mode == 'I':
        sel = [d for i, d in enumerate(descs) if i % 10 != 0]
    else:
        sel = [d for i, d in enumerate(descs) if i % 10 == 0]
    return [d for i, d in enumerate(sel) if i % nshards == shard]


def check(rec, kind, idx, rng, tier):
    import dask
    import dask.array as da
    import xrspatial
    H, W = int(rng.integers(2, 13)), int(rng.integers(2, 13))
    metric = str(rng.choice(['EUCLIDEAN', 'EUCLIDEAN', 'MANHATTAN', 'GREAT_CIRCLE']))
    if metric == 'GREAT_CIRCLE':
        cx, cy = float(rng.choice([0.5, 1.0, 2.0])), float(rng.choice([0.5, 1.0, 2.0]))
        geom = dict(cx=cx, cy=cy, x0=float(rng.uniform(-100, 100 - cx * W)), y0=float(rng.uniform(-60, 60 - cy * H)),
                    ydesc=bool(rng.random() < 0.5), xdesc=False)
        unit = 111000.0
    else:
        cx = float(rng.choice([1.0, 0.5, 2.0, 3.0, 0.1, 30.0])); cy = cx if rng.random() < 0.4 else float(rng.choice([1.0, 0.5, 2.0, 3.0, 0.25]))
        geom = dict(cx=cx, cy=cy, x0=float(rng.choice([0.0, 10.0, -7.5])), y0=float(rng.choice([0.0, 5.0, -3.25])),
                    ydesc=bool(rng.random() < 0.5), xdesc=False)
        unit = 1.0
    chunks = gen.random_chunks((H, W), rng)
    exact_multiple = metric != 'GREAT_CIRCLE' and rng.random() < 0.15
    if exact_multiple:
        # decimal cell size from coordinates with a non-zero origin: max_distance = k * cell is an exact number of cells only up to ulp noise
        c_ = float(rng.choice([0.1, 0.3, 0.7, 1 / 3]))
        geom.update(cx=c_, cy=c_, x0=float(rng.choice([10.0, -7.5, 100.25])), y0=float(rng.choice([5.0, -3.25])))
    dens = float(rng.choice([0.03, 0.1, 0.3]))
    img = np.where(rng.random((H, W)) < dens, rng.integers(1, 5, (H, W)), 0).astype(str(rng.choice(['float64', 'float64', 'int32', 'float32'])))
    mdc = str(rng.choice(['frac', 'one', 'k', 'k', 'k', 'extent', 'inf', 'default']))
    k = float(rng.choice([1.5, 2, 2.5, 3.7, 5]))
    base_cell = min(geom['cx'], geom['cy']) * unit
    if exact_multiple:
        mdc = 'k'; k = float(rng.choice([2, 3, 4, 5]))
    maxd = {'frac': 0.4 * base_cell, 'one': 1.0 * base_cell, 'k': k * base_cell,
            'extent': 3.0 * np.hypot(H * geom['cy'], W * geom['cx']) * unit, 'inf': np.inf, 'default': None}[mdc]
    # plant a target exactly on the halo edge of an interior chunk border
    planted = False
    if maxd is not None and np.isfinite(maxd) and mdc in ('one', 'k') and len(chunks[1]) > 1 and rng.random() < 0.6:
        pad = int(maxd / (geom['cx'] * unit) + 0.5)
        border = int(np.cumsum(chunks[1])[int(rng.integers(0, len(chunks[1]) - 1))])      # first column of the next chunk
        for off in (pad, pad + 1, pad - 1):
            col = border - 1 + off + 1 if rng.random() < 0.5 else border - off - 1
            if 0 <= col < W:
                img[int(rng.integers(0, H)), col] = 7; planted = True
    tvals = None
    zero_target = rng.random() < 0.15
    if zero_target:
        # 0 as the explicit target on a mostly non-zero raster (the halo outside the raster must not look like a target)
        img = np.where(rng.random((H, W)) < 0.08, 0, rng.integers(1, 5, (H, W))).astype(img.dtype)
        if rng.random() < 0.4:
            # land (1) / water (0) mask with whole regions of water: distance to water
            img = np.ones((H, W), dtype=img.dtype); img[:, :int(rng.integers(1, W))] = 0
            if rng.random() < 0.5: img = img.T.copy() if img.T.shape == (H, W) else img[::-1].copy()
        tvals = [0.0] if rng.random() < 0.6 else [0.0, 3.0]
        geom['x0'] = 0.0 if rng.random() < 0.7 else geom['x0']; geom['y0'] = 0.0 if rng.random() < 0.7 else geom['y0']
    elif rng.random() < 0.12:
        # integer ids that float32 cannot hold, as explicit targets
        img = np.where(img != 0, 2 ** 24 + 1 + 2 * (img.astype('int64') % 3), 0).astype('int64'); tvals = [float(2 ** 24 + 1), float(2 ** 24 + 3)]; rec.cls('targets.int_above_2^24')
    elif rng.random() < 0.25:
        tvals = [float(v) for v in rng.choice([0, 1, 2, 3, 4, 7], size=int(rng.integers(1, 3)), replace=False)]      # 0 is a legal explicit target
    fname = str(rng.choice(['proximity', 'allocation', 'direction']))
    f = getattr(xrspatial, fname)
    kw = dict(distance_metric=metric)
    if maxd is not None: kw['max_distance'] = maxd
    if tvals is not None: kw['target_values'] = tvals
    sname = str(rng.choice(['synchronous', 'threads1', 'threads2', 'threads4', 'threads16']))
    skw = dict(scheduler='synchronous') if sname == 'synchronous' else dict(scheduler='threads', num_workers=int(sname[7:]))
    res = (geom['cx'], geom['cy']) if (rng.random() < 0.3 and not exact_multiple) else None
    rn = gen.mk(img, res=res, **geom); rd = gen.mk(img, res=res, chunks=chunks, **geom)
    pay = dict(func=fname, img=img, kwargs=kw, geom=geom, chunks=chunks, scheduler=sname, res=res, planted=planted)
    rec.evaluation()
    ref = rec.call(f, rn, **kw)
    if hasattr(ref, 'exc'):
        rec.violation('proximity.numpy_raises', '%s on NumPy raised %r' % (fname, ref), pay); return
    out = rec.call(f, rd, **kw)
    # the halo the function asks for, in cells (its documented formula); the property's domain excludes halos larger than the raster
    halo_too_big = False
    if maxd is not None and np.isfinite(maxd):
        pad_y = int(maxd / geom['cy'] + 0.5); pad_x = int(maxd / geom['cx'] + 0.5)
        halo_too_big = pad_y > H or pad_x > W
    if hasattr(out, 'exc'):
        if halo_too_big and out.type == 'ValueError' and 'depth' in out.msg:
            rec.rej('halo_larger_than_raster'); rec.cls('rejected.metric.' + metric); return
        rec.violation('proximity.dask_raises_at_construction', '%s on Dask raised %r' % (fname, out), pay); return
    if not isinstance(out.data, da.Array):
        rec.violation('proximity.not_dask', '%s on a Dask raster returned %s' % (fname, type(out.data)), pay); return
    rec.ok('stays_dask')
    with dask.config.set(**skw):
        got = rec.call(lambda: out.data.compute())
    if len(rec.samples) < 1:
        rec.sample(pay)
    if hasattr(got, 'exc'):
        if halo_too_big and got.type == 'ValueError' and 'depth' in got.msg:
            rec.rej('halo_larger_than_raster'); return
        rec.violation('proximity.dask_raises', '%s on Dask raised at compute: %r' % (fname, got), pay); return
    d = tol.first_diff_exact(np.asarray(got), np.asarray(ref.data))
    pay.update(numpy=np.asarray(ref.data), dask=np.asarray(got))
    if d is not None:
        rec.violation('proximity.dask_differs', '%s: Dask result differs from NumPy at %r (chunks %s, max_distance %r, cx %r cy %r)' %
                      (fname, d, chunks, maxd, geom['cx'], geom['cy']), pay); return
    rec.ok('dask_equals_numpy'); rec.cls('func.' + fname); rec.cls('metric.' + metric); rec.cls('max_distance.' + mdc)
    nblocks = len(chunks[0]) * len(chunks[1])
    if nblocks > 1:
        rec.ok('multi_block')
        if nr.target_mask(img, tvals).any():
            rec.nontriv(img.tobytes(), repr(chunks), repr(kw), repr(geom), fname)
    if geom['cx'] != geom['cy']: rec.ok('cx!=cy')
    if planted: rec.ok('target_on_halo_edge')
    if zero_target: rec.ok('zero_as_explicit_target')
    if exact_multiple: rec.ok('max_distance_exact_multiple_of_decimal_cell')
    if mdc in ('extent', 'inf', 'default'): rec.ok('single_block_fallback')
    if mdc == 'frac': rec.ok('fraction_of_a_cell')
    rec.ok('scheduler.' + ('synchronous' if sname == 'synchronous' else 'threads'))
    rec.add('schedulers', sname); rec.add('chunkings', repr(chunks))
    for c in gen.chunk_classes(chunks): rec.cls('chunks.' + c)
    if tuple(out.dims) != tuple(rd.dims) or dict(out.attrs) != dict(rd.attrs):
        rec.violation('proximity.identity', 'dims/attrs differ', pay)
