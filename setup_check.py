#!/usr/bin/env python3
"""MANIFEST.setup_cmd: byte-compile the framework and check the interpreter sees /repo's working tree."""
import compileall, os, subprocess, sys
HERE = os.path.dirname(os.path.abspath(__file__))
ok = compileall.compile_dir(os.path.join(HERE, 'vlib'), quiet=1)
py = os.environ.get('VERIF_PYTHON', '/venv/bin/python')
env = dict(os.environ, PYTHONPATH='/repo' + os.pathsep + HERE, PYTHONDONTWRITEBYTECODE='1')
r = subprocess.run([py, '-c', 'import xrspatial, os, numba, dask, numpy; '
                    'assert os.path.realpath(xrspatial.__file__).startswith("/repo/"), xrspatial.__file__; '
                    'import vlib.core, vlib.gen, vlib.tol; print("setup ok", xrspatial.__file__)'], env=env)
sys.exit(0 if ok and r.returncode == 0 else 1)
