"""Connected components of equal value by explicit BFS (reference for C15/C16)."""
import numpy as np

N4 = ((0, 1), (1, 0), (0, -1), (-1, 0))
N8 = N4 + ((1, 1), (1, -1), (-1, 1), (-1, -1))


def components(a, conn=4, mask=None):
    """Return int array: component id (1..K, row-major first-occurrence order) for cells that are not NaN
    (and mask True if given), 0 elsewhere; and K."""
    a = np.asarray(a)
    H, W = a.shape
    comp = np.zeros((H, W), dtype=np.int64)
    valid = np.ones((H, W), bool)
    if a.dtype.kind == 'f':
        valid &= ~np.isnan(a)
    if mask is not None:
        valid &= np.asarray(mask, bool)
    nb = N4 if conn == 4 else N8
    k = 0
    al = a.tolist(); vl = valid.tolist()
    for i in range(H):
        for j in range(W):
            if not vl[i][j] or comp[i, j]:
                continue
            k += 1
            v = al[i][j]
            comp[i, j] = k
            stack = [(i, j)]
            while stack:
                y, x = stack.pop()
                for dy, dx in nb:
                    yy, xx = y + dy, x + dx
                    if 0 <= yy < H and 0 <= xx < W and vl[yy][xx] and not comp[yy, xx] and al[yy][xx] == v:
                        comp[yy, xx] = k
                        stack.append((yy, xx))
    return comp, k


def bijection_violation(labels, comp):
    """labels: library output (NaN/0 ignored where comp==0); comp from components().
    Returns None or a description of the first split/merge."""
    sel = comp > 0
    lab = np.asarray(labels, dtype='float64')
    if np.isnan(lab[sel]).any():
        i = np.argwhere(sel & np.isnan(lab))[0]
        return 'cell %s has no label' % (tuple(int(x) for x in i),)
    l2c, c2l = {}, {}
    for (i, j) in np.argwhere(sel):
        l, c = lab[i, j], int(comp[i, j])
        if l2c.setdefault(l, c) != c:
            return 'merged: label %r covers components %d and %d (cell %d,%d)' % (l, l2c[l], c, i, j)
        if c2l.setdefault(c, l) != l:
            return 'split: component %d carries labels %r and %r (cell %d,%d)' % (c, c2l[c], l, i, j)
    return None


def merge_depth_classes(a, conn=4):
    """Workload descriptors: number of components, whether any component is 'U/S shaped' in the sense that a
    row-major single pass with W/N neighbours would give it >= 2 provisional labels (needs merging)."""
    a = np.asarray(a)
    H, W = a.shape
    prov = np.zeros((H, W), int); nxt = 0
    parent = {}
    def find(x):
        while parent[x] != x:
            x = parent[x]
        return x
    merges = 0
    nbs = ((0, -1), (-1, 0)) if conn == 4 else ((0, -1), (-1, 0), (-1, -1), (-1, 1))
    for i in range(H):
        for j in range(W):
            v = a[i, j]
            if v != v:
                continue
            labs = set()
            for dy, dx in nbs:
                y, x = i + dy, j + dx
                if 0 <= y < H and 0 <= x < W and a[y, x] == v:
                    labs.add(find(prov[y, x]))
            if not labs:
                nxt += 1; parent[nxt] = nxt; prov[i, j] = nxt
            else:
                m = min(labs); prov[i, j] = m
                for l in labs:
                    if l != m:
                        parent[l] = m; merges += 1
    return merges
