"""C03 Zonal tables do not depend on how Dask rasters are chunked."""
import numpy as np
import xarray as xr

from vlib import gen, tol, zgen
from vlib.refs import zonal_ref as zr

PID = 'C03'
RULE = ("C02's zones/values generators (int8..uint64 incl. magnitudes whose squares overflow the dtype, float32/64 with NaN/inf, "
        "nodata, +-inf/NaN zone cells) x independent random chunk compositions for zones and values (1-cell chunks, ragged, single "
        "block; different chunkings exercise the rechunk path) x scheduler {synchronous, threads x 1/2/4/16}; stats (random stat "
        "subsets, zone_ids with >= 1 existing id) and crosstab (2-D count/percentage, 3-D count with layer chunking); the Dask "
        "table is compared with the NumPy table and with the naive reference (tie-breaker); non-trivial = distinct (data, chunkings, "
        "call) with >= 2 blocks and a zone that is absent from some block")
BUDGET = {'quick': 300, 'thorough': 900}
FLOORS = {'quick': {'stats.dask_equals_numpy': 80, 'crosstab.dask_equals_numpy': 36, 'chunks.differ_between_inputs': 57,
                    'zone_absent_from_a_block': 77, 'zone_without_valid_cell': 5, 'scheduler.threads': 60, 'int_squares_overflow_dtype': 5},
          'thorough': {'stats.dask_equals_numpy': 1500, 'crosstab.dask_equals_numpy': 800}}
ASSUMPTIONS = ['ids, count, min, max exact; sum/mean within the rounding of a float64 re-association; std/var within 8x the forward '
               'error bound of the documented formula (S2 - S^2/n)/n, calibrated in DESIGN.md; a NaN std is accepted iff the true '
               'variance is below that bound',
               'domain: at least one requested zone exists']


def plan(tier, seed):
    n = 160 if tier == 'quick' else 1600
    return [('stats', i) for i in range(n)] + [('xtab', i) for i in range(n // 2)] + [('xtab3', i) for i in range(n // 4)]


def _chunks(rng, H, W, cap):
    for _ in range(50):
        c = gen.random_chunks((H, W), rng)
        if len(c[0]) * len(c[1]) <= cap:
            return c
    return ((H,), (W,))


def _sched(rng):
    import dask
    s = str(rng.choice(['synchronous', 'threads1', 'threads2', 'threads4', 'threads16']))
    if s == 'synchronous':
        return s, dict(scheduler='synchronous')
    return s, dict(scheduler='threads', num_workers=int(s[7:]))


def _blocks_info(rec, zones, chz):
    """Is some zone absent from some block?"""
    uz = zr.zone_list(zones)
    r0 = 0
    absent = False; nblocks = 0
    for hr in chz[0]:
        c0 = 0
        for wc in chz[1]:
            blk = zones[r0:r0 + hr, c0:c0 + wc]
            nblocks += 1
            if len(np.setdiff1d(uz, zr.zone_list(blk))):
                absent = True
            c0 += wc
        r0 += hr
    return absent, nblocks


def check(rec, kind, idx, rng, tier):
    import dask
    from xrspatial.zonal import stats, crosstab
    H, W = int(rng.integers(1, 9)), int(rng.integers(1, 9))
    if idx % 11 == 0 and tier == 'thorough':
        H, W = 40, 40
    geom = gen.random_geom(rng)
    sname, skw = _sched(rng)
    cap = 36 if rng.random() < 0.1 else 12        # many tiny blocks are very slow in dask.dataframe; keep most cases moderate
    chz = _chunks(rng, H, W, cap)
    chv = chz if rng.random() < 0.5 else _chunks(rng, H, W, cap)
    bigcount = kind == 'xtab' and idx % 8 == 5
    if bigcount:
        # few zones and categories on a raster of 1000-2300 cells cut into blocks of fewer than 256 cells: every table entry
        # exceeds what a counter sized for one block can hold
        H, W = int(rng.choice([32, 40, 48])), int(rng.choice([32, 40, 48]))
        cy, cx = int(rng.choice([8, 10, 12, 15])), int(rng.choice([8, 10, 12, 15]))
        chz = (tuple([cy] * (H // cy) + ([H % cy] if H % cy else [])), tuple([cx] * (W // cx) + ([W % cx] if W % cx else [])))
        chv = chz if rng.random() < 0.7 else _chunks(rng, H, W, 36)
    if kind == 'stats':
        zkind, znf, zones = zgen.zones_raster(rng, H, W)
        vkind, vnf, values = zgen.values_raster(rng, H, W, int_overflow=bool(rng.random() < 0.4))
        ndlabel, nodata = zgen.nodata_choice(rng, zones, values)
        uz = zr.zone_list(zones)
        if len(uz) == 0:
            rec.rej('no_finite_zone'); return
        zlabel, zone_ids = zgen.id_selection(rng, uz)
        if zlabel == 'none_present' or rng.random() < 0.6:      # dask selects rows with iterrows(): one compute per row
            zone_ids = None; zlabel = 'all'
        names = [zr.STATS[i] for i in rng.permutation(7)[:int(rng.integers(1, 8))]]
        kw = dict(stats_funcs=list(names))
        if rng.random() < 0.15:
            kw = {}; names = list(zr.STATS)
        if zone_ids is not None: kw['zone_ids'] = list(zone_ids)
        if nodata is not None: kw['nodata_values'] = nodata
        base = dict(zones=zones, values=values, kwargs=kw, chunks_zones=chz, chunks_values=chv, scheduler=sname,
                    values_kind=vkind, zones_nonfinite=znf)
        rec.evaluation()
        zn = gen.mk(zones, **geom); vn = gen.mk(values, **geom)
        ref = rec.call(stats, zn, vn, **kw)
        zd = gen.mk(zones, chunks=chz, **geom); vd = gen.mk(values, chunks=chv, **geom)
        with dask.config.set(**skw):
            got = rec.call(lambda: stats(zd, vd, **kw).compute())
        if len(rec.samples) < 1:
            rec.sample(base)
        if hasattr(ref, 'exc'):
            rec.rej('numpy_backend_raises'); return
        if hasattr(got, 'exc'):
            rec.violation('stats.dask_raises', 'stats on Dask raised %r (NumPy backend returns a table)' % got, base); return
        rows = [u for u in uz] if zone_ids is None else [u for u in uz if u in set(zone_ids)]
        pay = dict(base, numpy=ref.to_dict('list'), dask=got.to_dict('list'))
        if list(got.columns) != list(ref.columns) or [float(x) for x in got['zone']] != [float(x) for x in ref['zone']]:
            rec.violation('stats.dask_rows', 'Dask table rows/columns %s %s differ from NumPy %s %s' %
                          (list(got.columns), got['zone'].tolist(), list(ref.columns), ref['zone'].tolist()), pay); return
        bad = None
        sq_over = False
        for ri, zid in enumerate(rows):
            v = zr.zone_vector(zones, values, zid, nodata)
            if len(v) == 0:
                rec.ok('zone_without_valid_cell')
            if v.dtype.kind in 'iu' and len(v) and float(np.max(np.abs(v.astype('float64')))) ** 2 > np.iinfo(v.dtype).max:
                sq_over = True
            for nm in names:
                g = float(got[nm].iloc[ri]); r_ = float(ref[nm].iloc[ri])
                tref, tl = zr.stat_ref(v, nm)
                if nm in ('max', 'min', 'count'):
                    ok = (g == r_) or (np.isnan(g) and np.isnan(r_))
                elif nm in ('sum', 'mean'):
                    ok = (np.isnan(g) and np.isnan(r_)) or abs(g - r_) <= 2 * tl + 1e-12 * abs(r_)
                else:
                    ft = zr.dask_formula_tol(v, nm) if len(v) else 0.0
                    if np.isnan(g) and not np.isnan(r_):
                        # NaN std from a slightly negative radicand is rounding of the documented formula iff var <= bound
                        var = zr.stat_ref(v, 'var')[0]
                        ok = nm == 'std' and var <= zr.dask_formula_tol(v, 'var')
                    else:
                        ok = (np.isnan(g) and np.isnan(r_)) or abs(g - r_) <= ft + 2 * tl
                if not ok and bad is None:
                    # tie-breaker: which side is wrong?
                    side = 'dask' if (np.isnan(tref) and np.isnan(r_)) or (not np.isnan(tref) and abs(r_ - tref) <= 4 * tl + 1e-9 * abs(tref)) else 'numpy-or-both'
                    bad = (zid, nm, g, r_, tref, side, len(v))
        if bad:
            zid, nm, g, r_, tref, side, n = bad
            mech = 'stats.dask_differs.' + nm
            if n == 0 and nm in ('sum', 'count') and g == 0 and np.isnan(r_):
                mech = 'stats.dask_empty_zone_zero_instead_of_nan'
            elif nm in ('std', 'var') and sq_over:
                mech = 'stats.dask_sum_of_squares_overflows_value_dtype'
            rec.violation(mech, 'zone %r %s: Dask %r, NumPy %r, reference %r (wrong side: %s, n=%d, chunks %s / %s)' %
                          (zid, nm, g, r_, tref, side, n, chz, chv), pay)
            return
        rec.ok('stats.dask_equals_numpy'); rec.ok('stats.cells', len(rows) * len(names))
        if sq_over and ('std' in names or 'var' in names):
            rec.ok('int_squares_overflow_dtype')
        absent, nblocks = _blocks_info(rec, zones, chz)
        _classes(rec, chz, chv, sname, absent, nblocks, zones, values, kw)
        return
    if kind == 'xtab':
        zkind, znf, zones = zgen.zones_raster(rng, H, W, max_zones=5)
        vkind, vnf, values = zgen.values_raster(rng, H, W, categorical=True)
        if bigcount:
            zones = rng.integers(1, 3, size=(H, W)).astype(zones.dtype if zones.dtype.kind in 'iu' else 'float64')
            values = rng.integers(0, 2, size=(H, W)).astype(values.dtype if values.dtype.kind in 'iu' else 'float64')
        ndlabel, nodata = zgen.nodata_choice(rng, zones, values)
        if ndlabel == 'equals_zone_id':
            nodata = None
        uz = zr.zone_list(zones); uc = zr.cats(values, nodata)
        if len(uz) == 0 or len(uc) == 0:
            rec.rej('no_zone_or_category'); return
        zlabel, zsel = zgen.id_selection(rng, uz)
        clabel, csel = zgen.id_selection(rng, uc, absent_pool=(77, -5))
        if zlabel == 'none_present': zsel = None
        if clabel == 'none_present': csel = None
        agg = str(rng.choice(['count', 'percentage']))
        kw = dict(agg=agg)
        if zsel is not None: kw['zone_ids'] = list(zsel)
        if csel is not None: kw['cat_ids'] = list(csel)
        if nodata is not None: kw['nodata_values'] = nodata
        base = dict(zones=zones, values=values, kwargs=kw, chunks_zones=chz, chunks_values=chv, scheduler=sname)
        rec.evaluation()
        ref = rec.call(crosstab, gen.mk(zones, **geom), gen.mk(values, **geom), **kw)
        zd = gen.mk(zones, chunks=chz, **geom); vd = gen.mk(values, chunks=chv, **geom)
        with dask.config.set(**skw):
            got = rec.call(lambda: crosstab(zd, vd, **kw).compute())
        if hasattr(ref, 'exc'):
            rec.rej('numpy_backend_raises'); return
        if hasattr(got, 'exc'):
            mech = 'crosstab.dask_raises'
            if chz != chv:
                mech = 'crosstab.dask_2d_inputs_with_different_chunks'
            rec.violation(mech, 'crosstab on Dask raised %r (chunks %s / %s)' % (got, chz, chv), base); return
        _compare_xtab(rec, got, ref, zones, values, nodata, agg, base, chz, chv)
        absent, nblocks = _blocks_info(rec, zones, chz)
        if bigcount and nblocks > 1 and max(int(((zones == z) & (values == c)).sum()) for z in uz for c in uc) > 255:
            rec.cls('crosstab.count_above_255_over_small_blocks')
        return
    # 3-D count
    L = int(rng.integers(1, 5))
    zkind, znf, zones = zgen.zones_raster(rng, H, W, max_zones=4)
    vals = rng.integers(0, 9, size=(L, H, W)).astype(str(rng.choice(['float64', 'int32', 'float32'])))
    if vals.dtype.kind == 'f' and rng.random() < 0.5:
        vals[rng.random(vals.shape) < 0.15] = np.nan
    nodata = None if rng.random() < 0.5 else int(rng.integers(0, 9))
    uz = zr.zone_list(zones)
    if len(uz) == 0:
        rec.rej('no_zone_or_category'); return
    labels = list(range(5, 5 + L))
    ys = np.arange(H) * 1.0; xs = np.arange(W) * 1.0
    za = xr.DataArray(zones, dims=['y', 'x'], coords={'y': ys, 'x': xs})
    va = xr.DataArray(vals, dims=['cat', 'y', 'x'], coords={'cat': labels, 'y': ys, 'x': xs})
    kw = dict(agg='count')
    if nodata is not None: kw['nodata_values'] = nodata
    zlabel, zsel = zgen.id_selection(rng, uz)
    if zlabel != 'none_present' and zsel is not None: kw['zone_ids'] = list(zsel)
    chl = gen.random_composition(L, rng)
    base = dict(zones=zones, values=vals, kwargs=kw, chunks_zones=chz, chunks_values=(chl,) + tuple(chv), scheduler=sname)
    rec.evaluation()
    ref = rec.call(crosstab, za, va, **kw)
    zd = za.chunk({'y': chz[0], 'x': chz[1]}); vd = va.chunk({'cat': chl, 'y': chv[0], 'x': chv[1]})
    with dask.config.set(**skw):
        got = rec.call(lambda: crosstab(zd, vd, **kw).compute())
    if hasattr(ref, 'exc'):
        rec.rej('numpy_backend_raises'); return
    if hasattr(got, 'exc'):
        rec.violation('crosstab3d.dask_raises', '3-D crosstab on Dask raised %r' % got, base); return
    _compare_xtab(rec, got, ref, zones, None, nodata, 'count', base, chz, chv, clause='crosstab3d.dask_equals_numpy')


def _classes(rec, chz, chv, sname, absent, nblocks, zones, values, kw):
    if chz != chv: rec.ok('chunks.differ_between_inputs')
    if absent: rec.ok('zone_absent_from_a_block')
    rec.ok('scheduler.' + ('synchronous' if sname == 'synchronous' else 'threads'))
    rec.add('schedulers', sname); rec.add('chunkings', repr(chz) + repr(chv))
    for c in gen.chunk_classes(chz): rec.cls('chunks.' + c)
    if nblocks >= 2 and absent:
        rec.nontriv(zones.tobytes(), values.tobytes() if values is not None else b'', repr(chz), repr(chv), repr(kw))


def _compare_xtab(rec, got, ref, zones, values, nodata, agg, base, chz, chv, clause='crosstab.dask_equals_numpy'):
    pay = dict(base, numpy=ref.to_dict('list'), dask=got.to_dict('list'))
    gz = [float(x) for x in got['zone']]; rz = [float(x) for x in ref['zone']]
    gc = sorted(map(str, [c for c in got.columns if c != 'zone'])); rc = sorted(map(str, [c for c in ref.columns if c != 'zone']))
    if sorted(gz) != sorted(rz) or gc != rc:
        rec.violation('crosstab.dask_rows', 'Dask crosstab rows/columns %s %s differ from NumPy %s %s' % (gz, gc, rz, rc), pay); return
    for c in [c for c in ref.columns if c != 'zone']:
        for z in rz:
            a = float(got[c][got['zone'] == z].iloc[0]); b = float(ref[c][ref['zone'] == z].iloc[0])
            if not ((np.isnan(a) and np.isnan(b)) or abs(a - b) <= 1e-6 * (1 + abs(b)) * (1 if agg == 'percentage' else 0) + (0 if agg == 'percentage' else 0)):
                if not (agg != 'percentage' and a == b):
                    mech = 'crosstab.dask_differs'
                    if chz != chv and values is not None:
                        mech = 'crosstab.dask_2d_inputs_with_different_chunks'
                    rec.violation(mech, 'zone %r category %r: Dask %r, NumPy %r (chunks %s / %s)' % (z, c, a, b, chz, chv), pay); return
    rec.ok(clause)
    absent, nblocks = _blocks_info(rec, zones, chz)
    _classes(rec, chz, chv, base['scheduler'], absent, nblocks, zones, values, base['kwargs'])
