#!/usr/bin/env python3
"""Developer tool: copy a confirmed seeded change into /verif/seeded/<pid>-<k>/ with meta.json.
   tools/keepseed.py C17 1 [--result /tmp/seedtest-C17-1.json] [--recheck]"""
import argparse, json, os, shutil, subprocess, sys
ap = argparse.ArgumentParser(); ap.add_argument('pid'); ap.add_argument('k'); ap.add_argument('--src', default='/tmp/seed/out')
ap.add_argument('--result', default=None); ap.add_argument('--note', default=''); ap.add_argument('--id', default=None)
a = ap.parse_args()
src = os.path.join(a.src, a.pid, a.k)
res_path = a.result or '/tmp/seedtest-%s-%s.json' % (a.pid, a.k)
t = open(res_path).read(); res = json.loads(t[t.index('{'):])
assert res['demo_clean'] == 0 and res['demo_patched'] == 1, 'demo does not discriminate'
sid = a.id or '%s-%s' % (a.pid, a.k)
dst = os.path.join('/verif/seeded', sid)
os.makedirs(dst, exist_ok=True)
for f in ('patch.diff', 'demo.py', 'notes.md'):
    shutil.copy(os.path.join(src, f), os.path.join(dst, f))
notes = open(os.path.join(src, 'notes.md')).read()
detected = {c: {'exit': v['rc'], 'lines': v['lines'][:6]} for c, v in res['checks'].items()}
meta = {
    'id': sid, 'breaks_property': a.pid,
    'origin': 'written by a fresh sub-agent given only the property text and a scratch worktree (nothing from /verif)',
    'needs_to_manifest': notes.strip()[:1500],
    'confirmed': {
        'demo_exit_on_unchanged_tree': res['demo_clean'], 'demo_exit_with_patch': res['demo_patched'],
        'existing_suite_failures_with_patch': res.get('suite_failures'),
        'existing_suite_selection': res.get('suite_selection', 'whole suite (xrspatial/tests)'),
        'existing_suite_note': 'only the always-failing baseline test(s) fail' if res.get('suite_failures') is not None else 'suite run recorded in an earlier seedtest of the same patch',
        'ran': ['tools/seedtest.py %s %s  (fresh worktree of /repo HEAD; demo.py before/after git apply; pytest -n 6 xrspatial/tests on the patched tree; python3 run.py <check> --tier quick with VERIF_REPO=<patched tree>)' % (a.pid, a.k)],
    },
    'detected_by': detected,
    'note': a.note,
}
json.dump(meta, open(os.path.join(dst, 'meta.json'), 'w'), indent=1)
print('kept', dst, {c: v['exit'] for c, v in detected.items()})
