#!/usr/bin/env python3
"""CLI of the runtime-monitoring framework.

    run.py C07 --tier quick|thorough [--seed N] [--replay replays/C07/x.json]

exit 0: property held on everything explored; 1: VIOLATION (line printed);
2: INCONCLUSIVE (deciding monitor not reached / worker died / watchdog).
Runs under any python3 (stdlib only here); workers use /venv/bin/python with
PYTHONPATH=/repo so whatever is in /repo's working tree is what is executed.
"""
import argparse
import os
import sys

sys.path.insert(0, os.path.dirname(os.path.abspath(__file__)))


def main():
    ap = argparse.ArgumentParser()
    ap.add_argument('pid')
    ap.add_argument('--tier', default=os.environ.get('VERIF_TIER', 'quick'), choices=['quick', 'thorough'])
    ap.add_argument('--seed', type=int, default=int(os.environ.get('VERIF_SEED', '0')))
    ap.add_argument('--jobs', type=int, default=None)
    ap.add_argument('--replay', default=None)
    a = ap.parse_args()
    py = os.environ.get('VERIF_PYTHON', '/venv/bin/python')
    if os.path.realpath(sys.executable) != os.path.realpath(py) and not os.environ.get('VERIF_NOREEXEC'):
        os.environ['VERIF_NOREEXEC'] = '1'
        os.execv(py, [py] + sys.argv)
    from vlib.core import orchestrate
    sys.exit(orchestrate(a.pid.upper(), a.tier, a.seed, a.jobs, a.replay))


if __name__ == '__main__':
    main()
