"""C12 Classifiers label every finite cell, in order, within [0, k-1]."""
import numpy as np
import xarray as xr

from vlib import gen, tol

PID = 'C12'
RULE = ("rasters up to 12x12 over value classes {small ints with ties, dyadic, uniform float64 not representable in float32, "
        "float32, big magnitudes, constant, int dtypes}, NaN/+-inf sprinkled; k = 2..40 (every k in thorough, random in quick) "
        "plus fewer-unique-values-than-k cases; reclassify: exhaustive position of a value relative to every bin list of length "
        "1..8 (below first, equal to each bound, between, above last), strictly ascending and with repeated bounds; NumPy backend "
        "for all five classifiers, Dask for binary/reclassify/equal_interval/quantile; non-trivial = distinct (function, k/bins, "
        "data hash) with >= 2 distinct output classes")
BUDGET = {'quick': 200, 'thorough': 900}
FLOORS = {'quick': {'binary.membership': 120, 'reclassify.first_bin_rule': 168, 'equal_interval.index': 175, 'quantile.bands': 174,
                    'natural_breaks.optimal': 51, 'order_preserving': 553, 'finite_cells_classified': 553, 'range_0_k-1': 553,
                    'dask.equal_interval': 30, 'dask.quantile.range_order': 30, 'max_cell_classified': 553},
          'thorough': {'binary.membership': 1500, 'reclassify.first_bin_rule': 1500, 'natural_breaks.optimal': 300,
                       'equal_interval.index': 1000, 'quantile.bands': 1000}}
DONTCARE_OF = {'equal_interval.boundary_band': 'equal_interval.cells_judged', 'quantile.boundary_band': 'quantile.cells_judged'}
EXHAUSTIVE = {'quick': ['reclassify: every position of a value relative to the bins for bin counts 1..8',
                        'k in 2..40 for quantile/equal_interval over the run (each k at least once)'],
              'thorough': ['reclassify: every position of a value relative to the bins for bin counts 1..12',
                           'every k in 2..40 for each of quantile/equal_interval/natural_breaks on several rasters']}
ASSUMPTIONS = ['quantile on Dask is approximate by design: only range/order/NaN clauses are judged there',
               'natural_breaks optimality judged only on float32-representable data with n <= 60 and num_sample >= n (the DP runs in '
               'float32; calibrated: worst relative excess 2e-16 on such data)',
               'cells within 1e-9 (relative to the data range) of a class boundary are counted as do-not-care for the '
               'interval-index / percentile-band clauses']


def plan(tier, seed):
    out = []
    n = 120 if tier == 'quick' else 1000
    out += [('binary', i) for i in range(n)]
    out += [('reclass', i) for i in range(n)]
    nb = 8 if tier == 'quick' else 12
    out += [('reclass_exh', i) for i in range(1, nb + 1)]
    ks = list(range(2, 41))
    reps = 3 if tier == 'quick' else 12
    for r in range(reps):
        for k in ks:
            out += [('eqint', '%d,%d' % (k, r)), ('quant', '%d,%d' % (k, r))]
    for r in range(5 if tier == 'quick' else 30):
        for k in range(2, 12):
            out.append(('jenks', '%d,%d' % (k, r)))
    out += [('few_unique', i) for i in range(16 if tier == 'quick' else 120)]
    return out


def _raster(rng, maxside=12, allow_nonfinite=True, classes=None):
    H, W = int(rng.integers(1, maxside + 1)), int(rng.integers(2, maxside + 1))
    cls = str(rng.choice(classes or ['smallint', 'int', 'dyadic', 'uniform', 'unrep32', 'big', 'float32', 'intdtype']))
    if cls == 'float32':
        a = gen.values(rng, (H, W), 'uniform', 'float32')
    elif cls == 'intdtype':
        a = gen.values(rng, (H, W), 'int', str(rng.choice(['int32', 'int64', 'uint8', 'int16'])))
    else:
        a = gen.values(rng, (H, W), cls, 'float64')
    if allow_nonfinite and a.dtype.kind == 'f' and rng.random() < 0.6:
        a = gen.sprinkle(a, rng, float(rng.choice([0.05, 0.2])), what=(np.nan, np.inf, -np.inf), where='random').astype(a.dtype)
    return cls, gen.rand_layout(a, rng)


def _common(rec, fname, a, out, k, pay, dask=False):
    """NaN/finite, integer classes in [0,k-1], order preservation. Returns class array or None."""
    if hasattr(out, 'exc'):
        mech = fname + ('.dask_raises' if dask else '.raises')
        if out.type == 'IndexError':
            mech = fname + '.out_of_bounds_read'
        rec.violation(mech, '%s raised %r' % (fname, out), pay); return None
    data = out.data
    if dask:
        import dask.array as da
        if not isinstance(data, da.Array):
            rec.violation(fname + '.not_dask', 'result of a Dask-backed call is %s' % type(data), pay); return None
        try:
            data = data.compute()
        except Exception as e:
            rec.violation(fname + '.dask_raises', '%s on Dask raised at compute: %r' % (fname, e), pay); return None
    c = np.asarray(data, dtype='float64')
    pay['got'] = c
    if c.shape != a.shape:
        rec.violation(fname + '.shape', 'shape %s' % (c.shape,), pay); return None
    af = a.astype('float64')
    fin = np.isfinite(af)
    if np.isnan(c[fin]).any():
        i = tuple(int(v) for v in np.argwhere(fin & np.isnan(c))[0])
        mech = fname + '.finite_cell_unclassified'
        if af[i] == af[fin].max():
            mech = fname + '.maximum_unclassified'
        rec.violation(mech, '%s: finite cell %s (value %r) got NaN' % (fname, i, af[i]), pay); return None
    rec.ok('finite_cells_classified')
    if fin.any():
        rec.ok('max_cell_classified')
    if (~np.isnan(c[~fin])).any():
        rec.violation(fname + '.nonfinite_classified', '%s: NaN/inf cell received a class' % fname, pay); return None
    rec.ok('nonfinite_cells_nan')
    cf = c[fin]
    if cf.size and (not np.array_equal(cf, np.round(cf)) or cf.min() < 0 or cf.max() > k - 1):
        mech = fname + '.class_out_of_range'
        rec.violation(mech, '%s(k=%d): classes %s not integers in [0,%d]' % (fname, k, np.unique(cf).tolist()[:12], k - 1), pay); return None
    rec.ok('range_0_k-1')
    order = np.argsort(af[fin], kind='stable')
    v = af[fin][order]; cc = cf[order]
    # equal values must share a class and classes must be non-decreasing in value
    if (np.diff(cc) < 0).any():
        j = int(np.where(np.diff(cc) < 0)[0][0])
        rec.violation(fname + '.order', '%s: value %r has class %r but larger value %r has class %r' % (fname, v[j], cc[j], v[j + 1], cc[j + 1]), pay)
        return None
    rec.ok('order_preserving')
    return c


def check(rec, kind, idx, rng, tier):
    from xrspatial import classify
    import dask.array as da
    if kind == 'binary':
        cls, a = _raster(rng)
        af = a.astype('float64')
        fin = af[np.isfinite(af)]
        nv = int(rng.integers(0, 5))
        vals = [x.item() for x in rng.choice(a[np.isfinite(af)].ravel(), size=min(nv, fin.size), replace=False)] if fin.size else []
        vals += [float(v) for v in rng.choice([-12345.0, 0.5, 7.0, 1e9], size=int(rng.integers(0, 3)))]
        if rng.random() < 0.35:
            # a long list of values (mostly absent from the raster) on a raster with repeated cells
            vals += [float(v) for v in rng.uniform(-500, 500, size=int(rng.integers(15, 45)))]
            rec.cls('binary.long_value_list')
        if rng.random() < 0.5:
            vals = list(rng.permutation(np.array(vals, dtype=a.dtype if a.dtype.kind == 'f' else 'float64'))) if vals else vals
        vals = [float(v) for v in vals]
        for dask_ in (False, True):
            rec.evaluation()
            r = gen.mk(a, chunks=gen.random_chunks(a.shape, rng) if dask_ else None, attrs={'res': (1, 1)})
            out = rec.call(classify.binary, r, vals)
            pay = dict(func='binary', raster=a, values=vals, dask=dask_, cls=cls)
            if hasattr(out, 'exc'):
                rec.violation('binary.raises', 'binary raised %r' % out, pay); continue
            gd = rec.call(out.data.compute) if dask_ else out.data
            if hasattr(gd, 'exc'):
                rec.violation('binary.dask_raises', 'binary on Dask raised at compute: %r' % gd, pay); continue
            got = np.asarray(gd, dtype='float64')
            exp = np.where(np.isin(af, np.array(vals, dtype='float64')), 1.0, np.where(np.isfinite(af), 0.0, np.nan))
            d = tol.first_diff_exact(got, exp)
            if len(np.unique(exp[~np.isnan(exp)])) >= 2:
                rec.nontriv('binary', a.tobytes(), tuple(vals))
            if idx == 0 and not dask_:
                rec.sample(pay)
            if d is not None:
                rec.violation('binary.membership', 'binary != membership in the listed values: %r' % (d,), dict(pay, got=got, expected=exp))
            else:
                rec.ok('binary.membership'); rec.cls('binary.' + ('dask' if dask_ else 'numpy'))
        return
    if kind in ('reclass', 'reclass_exh'):
        if kind == 'reclass_exh':
            nb = int(idx)
            variants = []
            for dup in (False, True):
                bins = [10.0 * (i + 1) for i in range(nb)]
                if dup and nb >= 2:
                    bins[nb // 2] = bins[nb // 2 - 1]
                pos = [bins[0] - 5, bins[0] - 1e-9]
                for i, b in enumerate(bins):
                    pos += [b, np.nextafter(b, np.inf), np.nextafter(b, -np.inf), b + 5]
                pos += [bins[-1] + 1e-9, bins[-1] + 1e6, np.nan, np.inf, -np.inf, -1e300]
                variants.append((bins, np.array(pos, dtype='float64').reshape(1, -1)))
                variants.append(([int(b) for b in bins], np.round(np.array([p for p in pos if np.isfinite(p)])).astype('int64').reshape(1, -1)))
                variants.append((bins, np.array(pos, dtype='float32').reshape(1, -1)))
        else:
            cls, a = _raster(rng)
            af = a.astype('float64')
            lo, hi = (np.nanmin(af[np.isfinite(af)]), np.nanmax(af[np.isfinite(af)])) if np.isfinite(af).any() else (0.0, 1.0)
            nb = int(rng.integers(1, 10))
            bins = np.sort(rng.uniform(lo - 1, hi + 1, nb))
            if rng.random() < 0.5 and np.isfinite(af).any():
                pick = rng.choice(af[np.isfinite(af)].ravel(), size=min(nb, int(np.isfinite(af).sum())), replace=False)
                bins[:len(pick)] = pick; bins = np.sort(bins)
            if rng.random() < 0.3:
                bins[-1] = np.inf
            if a.dtype.kind in 'iu':
                bins = np.round(bins[np.isfinite(bins)]) if rng.random() < 0.5 else bins
                if len(bins) == 0:
                    bins = np.array([0.0])
            variants = [(bins.tolist(), a)]
        for bins, a in variants:
            nbv = len(bins)
            newv = [float(v) for v in rng.choice([0, 1, 2, 3, 5, 10, 0.5, -1, 100.25, 16777217.0], size=nbv)]
            af = a.astype('float64')
            b64 = np.array(bins, dtype='float64')
            idxs = np.searchsorted(b64, af, side='left')
            with np.errstate(invalid='ignore'):
                exp = np.where(np.isfinite(af) & (idxs < nbv), np.array(newv, dtype='float32')[np.minimum(idxs, nbv - 1)].astype('float64'), np.nan)
            for dask_ in (False, True):
                rec.evaluation()
                r = gen.mk(a, chunks=gen.random_chunks(a.shape, rng) if dask_ else None)
                out = rec.call(classify.reclassify, r, bins=bins if rng.random() < 0.7 else list(bins), new_values=newv)
                pay = dict(func='reclassify', raster=a, bins=bins, new_values=newv, dask=dask_)
                if hasattr(out, 'exc'):
                    mech = 'reclassify.out_of_bounds_read' if out.type == 'IndexError' else 'reclassify.raises'
                    rec.violation(mech, 'reclassify raised %r' % out, pay); continue
                gd = rec.call(out.data.compute) if dask_ else out.data
                if hasattr(gd, 'exc'):
                    rec.violation('reclassify.dask_raises', 'reclassify on Dask raised at compute: %r' % gd, pay); continue
                got = np.asarray(gd, dtype='float64')
                d = tol.first_diff_exact(got, exp)
                if len(np.unique(exp[~np.isnan(exp)])) >= 2:
                    rec.nontriv('reclass', a.tobytes(), tuple(bins), tuple(newv))
                if kind == 'reclass_exh' and not dask_ and a.dtype == np.float64 and nbv == 3:
                    rec.sample(pay)
                if d is not None:
                    rec.violation('reclassify.first_bin_rule', 'reclassify(%d bins) differs from the first-bin-with-upper-bound>=value rule: %r'
                                  % (nbv, d), dict(pay, got=got, expected=exp))
                else:
                    rec.ok('reclassify.first_bin_rule'); rec.cls('reclassify.nbins.%d' % nbv)
                    if kind == 'reclass_exh':
                        rec.ok('reclassify.exhaustive_positions', int(a.size))
        return
    if kind in ('eqint', 'quant'):
        k, rep = map(int, idx.split(','))
        fname = 'equal_interval' if kind == 'eqint' else 'quantile'
        f = getattr(classify, fname)
        for trial in range(3):
            cls, a = _raster(rng)
            if kind == 'eqint' and trial == 2 and rng.random() < 0.5:
                # narrow signed integer rasters whose range exceeds the type's maximum (int16 DEM with the -32768 nodata cell present)
                dtn = str(rng.choice(['int8', 'int16', 'int32']))
                ii = np.iinfo(dtn)
                a = rng.integers(ii.min, int(ii.max) + 1, a.shape).astype(dtn)
                if rng.random() < 0.5:
                    a.flat[0] = ii.min; a.flat[-1] = ii.max
                cls = 'intwide'
            if kind == 'quant' and trial == 1 and a.dtype.kind == 'f' and rng.random() < 0.7:
                # distinct values that are close relative to their magnitude (large offset, or tiny magnitudes)
                base_ = rng.integers(0, 60, a.shape) * 0.5
                a = (500000.0 + base_) if rng.random() < 0.5 else (base_ * 1e-10); a = a.astype('float64'); cls = 'offset_or_tiny'
            if kind == 'eqint' and trial == 0 and k in (4, 5, 8, 10, 16, 20) and rng.random() < 0.7:
                a = (rng.integers(0, 21, a.shape) * 0.05).astype(str(rng.choice(['float32', 'float64']))); cls = 'decimal_grid'
            af = a.astype('float64'); fin = np.isfinite(af)
            nuniq = len(np.unique(af[fin]))
            if nuniq < 2:
                continue
            # ---- NumPy
            rec.evaluation()
            r = gen.mk(a, attrs={'res': (10.0, 10.0)})
            out = rec.call(f, r, k=k)
            pay = dict(func=fname, raster=a, k=k, cls=cls, backend='numpy')
            rec.cls('%s.k.%d' % (fname, k)); rec.cls('valueclass.' + cls)
            c = _common(rec, fname, a, out, k, pay)
            if c is not None:
                if len(np.unique(c[fin])) >= 2:
                    rec.nontriv(fname, k, a.tobytes())
                if rep == 0 and trial == 0 and k == 5:
                    rec.sample(pay)
                mn, mx = af[fin].min(), af[fin].max()
                scale = max(abs(mn), abs(mx), mx - mn)
                if kind == 'eqint':
                    w = (mx - mn) / k
                    t = (af[fin] - mn) / w
                    refc = np.clip(np.ceil(t) - 1, 0, k - 1)
                    # a value within 4 ulp (of the raster's own dtype) of a cut may fall on either side: float32 rasters get float32 cuts
                    btol = (4 * tol.EPS32 if a.dtype == np.float32 else 1e-9) * max(1.0, scale / max(w, 1e-300))
                    band = np.abs(t - np.round(t)) < btol
                    band &= ~((af[fin] == mn) | (af[fin] == mx))
                    bad = (c[fin] != refc) & ~band
                    rec.ok('equal_interval.cells_judged', int((~band).sum())); rec.dc('equal_interval.boundary_band', int(band.sum()))
                    if bad.any():
                        j = int(np.where(bad)[0][0])
                        rec.violation('equal_interval.index', 'equal_interval(k=%d): value %r in class %r, interval index is %r (min %r max %r)'
                                      % (k, af[fin][j], c[fin][j], refc[j], mn, mx), pay)
                    else:
                        rec.ok('equal_interval.index')
                else:
                    p = np.array([100.0 * (i + 1) / k for i in range(k)]); p[-1] = 100.0
                    q_raw = np.percentile(af[fin], p)
                    # de-duplicate with tolerance: percentiles that coincide in exact arithmetic may differ by rounding
                    keep = np.concatenate([[True], np.diff(q_raw) > 1e-9 * scale])
                    q = q_raw[keep]
                    ambiguous = not keep.all()          # duplicated percentiles: band numbering after de-duplication is rounding-dependent
                    kq = len(q)
                    v = af[fin]
                    refc = np.searchsorted(q, v, side='left').astype('float64')
                    band = np.zeros(v.shape, bool)
                    for qq in q:
                        band |= np.abs(v - qq) <= 1e-9 * scale
                    band &= (v != mx)
                    refc = np.minimum(refc, kq - 1)
                    rec.ok('quantile.cells_judged', int((~band).sum())); rec.dc('quantile.boundary_band', int(band.sum()))
                    if not ambiguous:
                        bad = (c[fin] != refc) & ~band
                        if bad.any():
                            j = int(np.where(bad)[0][0])
                            rec.violation('quantile.bands', 'quantile(k=%d): value %r in class %r, percentile band is %r' % (k, v[j], c[fin][j], refc[j]), pay)
                        else:
                            rec.ok('quantile.bands'); rec.ok('quantile.bands.exact_labels')
                    else:
                        # judge the partition: two judged cells share a class exactly when they share a percentile band
                        o = np.argsort(v[~band], kind='stable')
                        cj = c[fin][~band][o]; rj = refc[~band][o]
                        same_c = np.diff(cj) == 0; same_r = np.diff(rj) == 0
                        if (same_c != same_r).any():
                            j = int(np.where(same_c != same_r)[0][0])
                            rec.violation('quantile.bands', 'quantile(k=%d): values %r and %r: same class=%s but same percentile band=%s'
                                          % (k, v[~band][o][j], v[~band][o][j + 1], bool(same_c[j]), bool(same_r[j])), pay)
                        else:
                            rec.ok('quantile.bands'); rec.cls('quantile.duplicated_percentiles_partition_only')
            # ---- Dask
            if trial == 0:
                rec.evaluation()
                chunks = gen.random_chunks(a.shape, rng)
                rd = gen.mk(a, chunks=chunks, attrs={'res': (10.0, 10.0)})
                outd = rec.call(f, rd, k=k)
                payd = dict(func=fname, raster=a, k=k, cls=cls, backend='dask', chunks=chunks)
                cd = _common(rec, fname, a, outd, k, payd, dask=True)
                if cd is not None:
                    if kind == 'eqint':
                        rec.ok('dask.equal_interval')
                        if c is not None:
                            dd = tol.first_diff_exact(cd, c)
                            if dd is None:
                                rec.ok('dask.equal_interval.equals_numpy')
                            else:
                                # min and max are exact whatever the reduction order: the cuts, hence the labels, must be identical
                                rec.violation('equal_interval.dask_differs', 'equal_interval on Dask differs from NumPy: %r' % (dd,), payd)
                    else:
                        rec.ok('dask.quantile.range_order')
        return
    if kind == 'jenks':
        k, rep = map(int, idx.split(','))
        for trial in range(3):
            H, W = int(rng.integers(2, 8)), int(rng.integers(2, 8))
            vc = int(rng.integers(0, 4))
            if vc == 0: a = rng.integers(0, 30, (H, W)).astype('float64')
            elif vc == 1: a = rng.integers(0, 400, (H, W)) / 8.0
            elif vc == 2: a = (rng.random((H, W)) * 100).astype('float32').astype('float64')
            if vc in (0, 1) and rng.random() < 0.35:
                a = a + float(rng.choice([8000.0, 500000.0]))          # offset large against the spread (still exact in float32)
            if rng.random() < 0.2:
                # flat surface with a single outlier (or a pit and a spike); or almost as many classes as cells
                a = np.full((H, W), 10.0); a[0, 0] = float(rng.choice([-350.0, 400.0]))
                if rng.random() < 0.5: a[-1, -1] = float(rng.choice([300.0, -200.0]))
                a = a + rng.integers(0, 3, (H, W)); vc = 0
            elif rng.random() < 0.15:
                H, W = 2, 3; a = rng.permutation(np.arange(6) * 3.0 + 1).reshape(2, 3); vc = 0
            else: a = rng.uniform(0, 1000, (H, W)) + rng.uniform(0, 1e-7, (H, W))      # not float32-representable
            if rng.random() < 0.3:
                a = gen.sprinkle(a, rng, 0.1, what=(np.nan, np.inf, -np.inf), where='random')
            if rng.random() < 0.3 and vc != 3:
                a = a.astype('float32') if vc == 2 else a
            fin = np.isfinite(a)
            if len(np.unique(a[fin])) < k:
                continue
            rec.evaluation()
            r = gen.mk(a)
            kw = dict(k=k)
            if rng.random() < 0.3:
                kw['num_sample'] = None
            out = rec.call(classify.natural_breaks, r, **kw)
            pay = dict(func='natural_breaks', raster=a, k=k, valueclass=vc, kwargs=kw)
            rec.cls('natural_breaks.k.%d' % k); rec.cls('natural_breaks.valueclass.%d' % vc)
            c = _common(rec, 'natural_breaks', a, out, k, pay)
            if c is None:
                continue
            if len(np.unique(c[fin])) >= 2:
                rec.nontriv('jenks', k, a.tobytes())
            if vc != 3 and fin.sum() <= 60:
                af = a.astype('float64')
                got = sum(_ssd(af[fin & (c == cl)]) for cl in np.unique(c[fin]))
                best = _opt(np.sort(af[fin]), k)
                if got > best * (1 + 1e-4) + 1e-6:
                    rec.violation('natural_breaks.suboptimal', 'natural_breaks(k=%d): within-class SSD %r, optimum %r' % (k, got, best), pay)
                else:
                    rec.ok('natural_breaks.optimal')
        return
    if kind == 'few_unique':
        # fewer unique values than k: every finite cell still gets a class in [0,k-1], in order
        H, W = int(rng.integers(1, 6)), int(rng.integers(2, 6))
        u = int(rng.integers(1, 4))
        vals = rng.choice([0.0, 1.5, 2.0, 7.25, 100.0, -3.0], size=u, replace=False)
        a = rng.choice(vals, size=(H, W))
        if rng.random() < 0.4:
            a = gen.sprinkle(a, rng, 0.2, what=(np.nan, np.inf), where='random')
        k = int(rng.integers(u + 1, u + 6))
        for fname in ('quantile', 'equal_interval', 'natural_breaks'):
            if fname == 'equal_interval' and len(np.unique(a[np.isfinite(a)])) < 2:
                continue   # zero-width range: interval index undefined
            if not np.isfinite(a).any():
                continue
            rec.evaluation()
            out = rec.call(getattr(classify, fname), gen.mk(a), k=k)
            pay = dict(func=fname, raster=a, k=k, case='fewer unique values than k')
            if _common(rec, fname, a, out, k, pay) is not None:
                rec.ok('few_unique_values')
        return


def _ssd(v):
    return float(((v - v.mean()) ** 2).sum()) if len(v) else 0.0


def _opt(vals, k):
    u, c = np.unique(vals, return_counts=True); m = len(u)
    cost = {}
    for i in range(m):
        for j in range(i, m):
            cost[(i, j)] = _ssd(np.repeat(u[i:j + 1], c[i:j + 1]))
    INF = 1e300
    D = [[INF] * (m + 1) for _ in range(k + 1)]; D[0][0] = 0
    for kk in range(1, k + 1):
        for j in range(1, m + 1):
            for i in range(kk - 1, j):
                if D[kk - 1][i] < INF:
                    D[kk][j] = min(D[kk][j], D[kk - 1][i] + cost[(i, j - 1)])
    return D[k][m]
