"""C08 Slope, aspect, curvature, hillshade are local 3x3 formulas with NaN borders."""
import numpy as np
import xarray as xr

from vlib import gen, tol

PID = 'C08'
RULE = ("elevation rasters 3x3..14x14 over value classes {small ints with plateaus, ints, dyadic, uniform floats, big magnitudes, "
        "ramps, constant} in int/float dtypes with NaN cells; cell sizes via res attr (tuple/scalar) or coordinates, cx != cy, "
        "descending y; azimuth/altitude sweeps; oracle = float64 evaluation of the documented formulas with a forward-error "
        "tolerance; relations: one-cell perturbation locality (exact), +constant offset and quarter turn on integer-valued rasters "
        "(exact), ranges; non-trivial = distinct (function, data hash, geometry) with relief (>= 3 distinct interior outputs)")
BUDGET = {'quick': 160, 'thorough': 500}
FLOORS = {'quick': {'slope.formula': 150, 'aspect.formula': 150, 'curvature.formula': 150, 'hillshade.formula': 150,
                    'locality': 1500, 'offset_invariance': 200, 'offset_invariance.window_sums_above_2^24': 150, 'quarter_turn': 150, 'border_nan': 600, 'cx!=cy': 100,
                    'flat_window': 100, 'nan_contained': 300, 'derived_raster_uses_own_cellsize': 16},
          'thorough': {'slope.formula': 1500, 'locality': 15000, 'quarter_turn': 1500}}
ASSUMPTIONS = ['aspect and hillshade as documented do not use the cell size; slope uses (cx, cy), curvature the mean cell size',
               'aspect is do-not-care where the gradient magnitude is within 1e3x of the float32 rounding noise of the window sums',
               'offset/rotation relations are judged on integer-valued rasters with |z| < 2^20 where float32 window sums are exact']
E32 = tol.EPS32


def plan(tier, seed):
    n = 400 if tier == 'quick' else 16000
    return [('terrain', i) for i in range(n)]


def _win(z):
    """z float64 (H,W) -> dict of the eight neighbours for interior cells (arrays (H-2, W-2)); row y-1 is 'top'."""
    t = {}
    t['tl'] = z[:-2, :-2]; t['t'] = z[:-2, 1:-1]; t['tr'] = z[:-2, 2:]
    t['l'] = z[1:-1, :-2]; t['c'] = z[1:-1, 1:-1]; t['r'] = z[1:-1, 2:]
    t['bl'] = z[2:, :-2]; t['b'] = z[2:, 1:-1]; t['br'] = z[2:, 2:]
    return t


def _interior(H, W, fill=np.nan):
    return np.full((H, W), fill, dtype='float64')


def ref_slope(z, cx, cy):
    H, W = z.shape; t = _win(z)
    dx = ((t['tr'] + 2 * t['r'] + t['br']) - (t['tl'] + 2 * t['l'] + t['bl'])) / (8 * cx)
    dy = ((t['bl'] + 2 * t['b'] + t['br']) - (t['tl'] + 2 * t['t'] + t['tr'])) / (8 * cy)
    p = np.sqrt(dx * dx + dy * dy)
    out = _interior(H, W); out[1:-1, 1:-1] = np.degrees(np.arctan(p))
    mag = sum(np.abs(t[k]) * (2 if k in ('l', 'r', 't', 'b') else 1) for k in t if k != 'c')
    noise = 6 * E32 * mag * (1 / (8 * cx) + 1 / (8 * cy))
    tolr = _interior(H, W); tolr[1:-1, 1:-1] = 57.3 * noise / (1 + p * p) + 8 * E32 * np.abs(out[1:-1, 1:-1]) + 1e-6
    return out, tolr


def ref_aspect(z):
    H, W = z.shape; t = _win(z)
    dx = ((t['tr'] + 2 * t['r'] + t['br']) - (t['tl'] + 2 * t['l'] + t['bl'])) / 8
    dy = ((t['bl'] + 2 * t['b'] + t['br']) - (t['tl'] + 2 * t['t'] + t['tr'])) / 8
    a = np.degrees(np.arctan2(dy, -dx))
    comp = np.where(a < 0, 90.0 - a, np.where(a > 90.0, 450.0 - a, 90.0 - a))
    comp = np.where((dx == 0) & (dy == 0), -1.0, comp)
    comp = np.where(np.isnan(dx) | np.isnan(dy), np.nan, comp)
    out = _interior(H, W); out[1:-1, 1:-1] = comp
    mag = sum(np.abs(t[k]) * (2 if k in ('l', 'r', 't', 'b') else 1) for k in t if k != 'c')
    noise = 6 * E32 * mag / 8
    g = np.sqrt(dx * dx + dy * dy)
    with np.errstate(all='ignore'):
        angtol = np.where(g > 0, 57.3 * 2 * noise / g, np.inf) + 8 * E32 * 360 + 1e-5
    illc = (g > 0) & (g < 1e3 * noise)          # direction dominated by rounding noise
    flat_amb = (g == 0) & (noise > 0) & False     # exact zero is exact in float32 too when all sums are equal
    tl = _interior(H, W); tl[1:-1, 1:-1] = angtol
    ic = np.zeros((H, W), bool); ic[1:-1, 1:-1] = illc
    return out, tl, ic


def ref_curvature(z, cs):
    H, W = z.shape; t = _win(z)
    d = (t['b'] + t['t']) / 2 - t['c']; e = (t['r'] + t['l']) / 2 - t['c']
    out = _interior(H, W); out[1:-1, 1:-1] = -2 * (d + e) * 100 / (cs * cs)
    mag = np.abs(t['b']) + np.abs(t['t']) + np.abs(t['l']) + np.abs(t['r']) + 2 * np.abs(t['c'])
    tolr = _interior(H, W); tolr[1:-1, 1:-1] = 200 / (cs * cs) * 6 * E32 * mag + 8 * E32 * np.abs(out[1:-1, 1:-1]) + 1e-12
    return out, tolr


def ref_hillshade(z, azimuth, alt):
    H, W = z.shape; t = _win(z)
    x = (t['b'] - t['t']) / 2; y = (t['r'] - t['l']) / 2
    az = 360.0 - azimuth
    slope = np.pi / 2 - np.arctan(np.sqrt(x * x + y * y))
    aspect = np.arctan2(-x, y)
    shaded = np.sin(np.radians(alt)) * np.sin(slope) + np.cos(np.radians(alt)) * np.cos(slope) * np.cos((np.radians(az) - np.pi / 2) - aspect)
    out = _interior(H, W); out[1:-1, 1:-1] = (shaded + 1) / 2
    mag = np.abs(t['b']) + np.abs(t['t']) + np.abs(t['l']) + np.abs(t['r'])
    tolr = _interior(H, W); tolr[1:-1, 1:-1] = 16 * E32 * (1 + mag) + 1e-6
    return out, tolr


def _circ(a, b):
    d = np.abs(a - b) % 360.0
    return np.minimum(d, 360.0 - d)


def check(rec, kind, idx, rng, tier):
    from xrspatial import slope, aspect, curvature, hillshade
    from xrspatial.analytics import summarize_terrain
    H, W = int(rng.integers(3, 15)), int(rng.integers(3, 15))
    cls = str(rng.choice(['smallint', 'int', 'dyadic', 'uniform', 'big', 'ramp', 'const']))
    dtype = str(rng.choice(['float64', 'float32', 'int32', 'int64', 'uint16', 'float64']))
    z = gen.values(rng, (H, W), cls, dtype)
    if z.dtype.kind == 'f' and rng.random() < 0.5:
        z = gen.sprinkle(z, rng, float(rng.choice([0.03, 0.1, 0.3])), where=str(rng.choice(['random', 'border', 'block']))).astype(dtype)
    # cell-size geometry
    geom = gen.random_geom(rng)
    resmode = str(rng.choice(['coords', 'res_tuple', 'res_scalar']))
    cx, cy = geom['cx'], geom['cy']
    res = None
    if resmode == 'res_tuple':
        cx, cy = float(rng.choice([1, 0.5, 10, 30])), float(rng.choice([1, 2, 10, 25]))
        res = (cx, cy)
    elif resmode == 'res_scalar':
        cx = cy = float(rng.choice([1, 0.5, 10, 30])); res = cx
    else:
        # resolution from coordinates is (max-min)/(n-1): equals the step
        pass
    use_dask = idx % 5 == 4
    chunks = gen.random_chunks((H, W), rng) if use_dask else None
    attrs = {'note': 'x'}
    r = gen.mk(gen.rand_layout(z, rng) if not use_dask else z, res=res, attrs=attrs, name='dem', chunks=chunks, **geom)
    z64 = z.astype('float32').astype('float64')
    intval = bool(np.all(z64[np.isfinite(z64)] == np.round(z64[np.isfinite(z64)])) and np.nanmax(np.abs(z64), initial=0) < 2 ** 20)
    az = float(rng.choice([225, 0, 90, 180, 315, 45.5, 360])); alt = float(rng.choice([25, 0, 45, 90, 10.5]))
    hk = {} if rng.random() < 0.3 else dict(azimuth=az, angle_altitude=alt)
    if not hk:
        az, alt = 225.0, 25.0
    base = dict(z=z, cls=cls, dtype=dtype, geom=geom, res=res, resmode=resmode, dask=use_dask, chunks=chunks)

    def run(f, rr, **kw):
        o = rec.call(f, rr, **kw)
        if hasattr(o, 'exc'):
            return o
        d = o.data
        if use_dask and rr is r:
            import dask.array as da
            if not isinstance(d, da.Array):
                return None
            d = d.compute()
        return np.asarray(d, dtype='float64')

    funcs = [('slope', slope, {}), ('aspect', aspect, {}), ('curvature', curvature, {}), ('hillshade', hillshade, hk)]
    outs = {}
    border = np.ones((H, W), bool); border[1:-1, 1:-1] = False
    for fname, f, kw in funcs:
        rec.evaluation()
        got = run(f, r, **kw)
        pay = dict(base, func=fname, kwargs=kw)
        if got is None or hasattr(got, 'exc'):
            rec.violation(fname + '.raises', '%s raised / lost its backend: %r' % (fname, got), pay); continue
        pay['got'] = got
        outs[fname] = got
        if got.shape != (H, W):
            rec.violation(fname + '.shape', 'shape %s' % (got.shape,), pay); continue
        rec.cls('func.' + fname); rec.cls('valueclass.' + cls); rec.cls('dtype.' + dtype); rec.cls('res.' + resmode)
        if cx != cy:
            rec.ok('cx!=cy')
        if not np.isnan(got[border]).all():
            rec.violation(fname + '.border', '%s: non-NaN border cell' % fname, pay); continue
        rec.ok('border_nan')
        if fname == 'slope':
            ref, tl = ref_slope(z64, cx, cy); ic = np.zeros((H, W), bool)
        elif fname == 'aspect':
            ref, tl, ic = ref_aspect(z64)
        elif fname == 'curvature':
            ref, tl = ref_curvature(z64, (cx + cy) / 2); ic = np.zeros((H, W), bool)
        else:
            ref, tl = ref_hillshade(z64, az, alt); ic = np.zeros((H, W), bool)
        pay['expected'] = ref
        inner = ~border
        nan_ref = np.isnan(ref) & inner
        if (np.isnan(got) != np.isnan(ref))[inner & ~ic].any():
            i = tuple(int(v) for v in np.argwhere((np.isnan(got) != np.isnan(ref)) & inner & ~ic)[0])
            rec.violation(fname + '.nan', '%s: NaN mismatch at %s (got %r, formula %r)' % (fname, i, got[i], ref[i]), pay); continue
        if nan_ref.any():
            rec.ok('nan_contained', int(nan_ref.sum()))
        judged = inner & ~np.isnan(ref) & ~ic
        if ic.any():
            rec.dc('aspect.rounding_dominated_gradient', int(ic.sum()))
        if fname == 'aspect':
            flat_r = ref == -1; flat_g = got == -1
            with np.errstate(invalid='ignore'):
                bad = judged & ((flat_r != flat_g) | (~flat_r & ~(_circ(got, ref) <= tl)))
        else:
            with np.errstate(invalid='ignore'):
                bad = judged & ~(np.abs(got - ref) <= tl)
        if bad.any():
            i = tuple(int(v) for v in np.argwhere(bad)[0])
            rec.violation(fname + '.formula', '%s at %s: got %r, documented formula gives %r (cx=%r cy=%r)' % (fname, i, got[i], ref[i], cx, cy), pay)
            continue
        rec.ok(fname + '.formula'); rec.ok('cells_judged', int(judged.sum()))
        vals = got[judged]
        if len(np.unique(np.round(vals, 4))) >= 3:
            rec.nontriv(fname, z.tobytes(), cx, cy, repr(kw))
        # ranges
        lo, hi = {'slope': (0, 90), 'aspect': (-1, 360), 'curvature': (-np.inf, np.inf), 'hillshade': (0 - 4 * E32, 1 + 4 * E32)}[fname]
        fin = got[~np.isnan(got)]
        okr = ((fin >= lo) & (fin <= hi)).all()
        if fname == 'aspect':
            okr = okr and (((fin == -1) | (fin >= 0))).all()
        if okr:
            rec.ok('range')
        else:
            rec.violation(fname + '.range', '%s outside its documented range: min %r max %r' % (fname, fin.min(), fin.max()), pay)
        # flat windows
        if fname in ('slope', 'aspect', 'curvature') and H >= 3:
            t = _win(z64)
            stack = np.stack([t[k2] for k2 in t])
            flat = (stack == stack[0]).all(axis=0)
            if flat.any():
                expect = {'slope': 0.0, 'aspect': -1.0, 'curvature': 0.0}[fname]
                if (got[1:-1, 1:-1][flat] == expect).all():
                    rec.ok('flat_window', int(flat.sum()))
                else:
                    rec.violation(fname + '.flat', '%s on a flat 3x3 window is not %r' % (fname, expect), pay)
        if len(rec.samples) < 1 and fname == 'slope':
            rec.sample(dict(func=fname, z=z, cx=cx, cy=cy, got=got))

    # ---- locality: perturb one cell, outputs may change only in its 3x3 neighbourhood (NumPy backend, exact)
    zz = np.asarray(z)
    for rep in range(3):
        i, j = int(rng.integers(0, H)), int(rng.integers(0, W))
        z2 = zz.copy()
        how = str(rng.choice(['nan', 'plus', 'random', 'huge'])) if zz.dtype.kind == 'f' else str(rng.choice(['plus', 'random']))
        if how == 'nan': z2[i, j] = np.nan
        elif how == 'plus': z2[i, j] = z2[i, j] + 100 if np.isfinite(float(z2[i, j])) else 5
        elif how == 'huge': z2[i, j] = 1e9
        else: z2[i, j] = rng.integers(0, 200)
        r0 = gen.mk(zz, res=res, attrs=attrs, name='dem', **geom)
        r2 = gen.mk(z2, res=res, attrs=attrs, name='dem', **geom)
        near = np.zeros((H, W), bool); near[max(0, i - 1):i + 2, max(0, j - 1):j + 2] = True
        for fname, f, kw in funcs:
            rec.evaluation()
            o0 = rec.call(f, r0, **kw); o2 = rec.call(f, r2, **kw)
            if hasattr(o0, 'exc') or hasattr(o2, 'exc'):
                rec.violation(fname + '.raises', '%s raised in locality probe: %r %r' % (fname, o0, o2), dict(base, func=fname)); continue
            a0 = np.asarray(o0.data, dtype='float64'); a2 = np.asarray(o2.data, dtype='float64')
            diff = ~((a0 == a2) | (np.isnan(a0) & np.isnan(a2)))
            if (diff & ~near).any():
                k2 = tuple(int(v) for v in np.argwhere(diff & ~near)[0])
                rec.violation(fname + '.not_local', '%s: changing cell %s (%s) changed output cell %s outside its 3x3 neighbourhood'
                              % (fname, (i, j), how, k2), dict(base, func=fname, perturbed=(i, j), how=how, before=a0, after=a2))
            else:
                rec.ok('locality'); rec.cls('perturb.' + how)

    # ---- offset invariance and quarter turn on integer-valued rasters (exact)
    if intval and zz.dtype.kind in 'fi' and np.isfinite(z64).any():
        # large offsets keep every elevation an integer below 2^24 (exact in float32) but push the 3x3 window sums beyond 2^24:
        # the result stays bit-identical only if the stencil itself is evaluated in double precision, as the kernels do
        off = float(rng.choice([1000, 1, -250, 4096, 6000000, 12000000, -8000000]))
        if zz.dtype.kind == 'f' or (np.nanmin(z64) + off >= np.iinfo(zz.dtype).min and np.nanmax(z64) + off <= np.iinfo(zz.dtype).max):
            r0 = gen.mk(zz, res=res, name='dem', **geom)
            r1 = gen.mk((zz + zz.dtype.type(off)).astype(zz.dtype), res=res, name='dem', **geom)
            for fname, f, kw in funcs:
                rec.evaluation()
                o0 = rec.call(f, r0, **kw); o1 = rec.call(f, r1, **kw)
                if hasattr(o0, 'exc') or hasattr(o1, 'exc'):
                    continue
                d = tol.first_diff_exact(np.asarray(o1.data, dtype='float64'), np.asarray(o0.data, dtype='float64'))
                if d is None:
                    rec.ok('offset_invariance')
                    if abs(off) >= 2 ** 22:
                        rec.ok('offset_invariance.window_sums_above_2^24')
                else:
                    rec.violation(fname + '.offset', '%s changes when %r is added to every elevation: %r' % (fname, off, d),
                                  dict(base, func=fname, offset=off))
        # quarter turn: square cells only
        sq = float(rng.choice([1.0, 2.0, 0.5, 30.0]))
        r0 = gen.mk(zz, res=(sq, sq), name='dem')
        zr = np.ascontiguousarray(np.rot90(zz))
        rr = gen.mk(zr, res=(sq, sq), name='dem')
        for fname, f in (('slope', slope), ('curvature', curvature), ('aspect', aspect)):
            rec.evaluation()
            o0 = rec.call(f, r0); o1 = rec.call(f, rr)
            if hasattr(o0, 'exc') or hasattr(o1, 'exc'):
                continue
            a0 = np.rot90(np.asarray(o0.data, dtype='float64')); a1 = np.asarray(o1.data, dtype='float64')
            pay = dict(base, func=fname, relation='quarter turn', cell=sq)
            if fname != 'aspect':
                d = tol.first_diff_exact(a1, a0)
                if d is None:
                    rec.ok('quarter_turn')
                else:
                    rec.violation(fname + '.rotation', '%s does not turn with the raster: %r' % (fname, d), pay)
            else:
                flat0 = a0 == -1; flat1 = a1 == -1
                both = ~np.isnan(a0) & ~np.isnan(a1) & ~flat0 & ~flat1
                ok = (np.isnan(a0) == np.isnan(a1)).all() and (flat0 == flat1).all() and \
                    (_circ(a1[both], (a0[both] - 90.0) % 360.0) <= 1e-3).all()
                if ok:
                    rec.ok('quarter_turn')
                else:
                    rec.violation('aspect.rotation', 'aspect of the quarter-turned raster is not the turned aspect shifted by 90 degrees', pay)

    # ---- a raster derived from one that was already analysed (xarray carries attrs through isel): the cell size must be
    #      that of the derived raster's own coordinates
    if not use_dask and res is None and H >= 7 and W >= 7 and idx % 3 == 0:
        r_full = gen.mk(zz, attrs={'note': 'x'}, name='dem', **geom)
        for f in (slope, curvature):
            rec.call(f, r_full)                                   # history: the parent raster has been analysed
        sy, sx = int(rng.choice([2, 3])), int(rng.choice([1, 2, 3]))
        r_sub = r_full.isel(y=slice(None, None, sy), x=slice(None, None, sx))
        zs = np.asarray(r_sub.values).astype('float32').astype('float64')
        cxs, cys = geom['cx'] * sx, geom['cy'] * sy
        for fname, f, ref_f in (('slope', slope, lambda: ref_slope(zs, cxs, cys)), ('curvature', curvature, lambda: ref_curvature(zs, (cxs + cys) / 2))):
            rec.evaluation()
            o = rec.call(f, r_sub)
            if hasattr(o, 'exc'):
                rec.violation(fname + '.raises', '%s raised on a decimated raster: %r' % (fname, o), dict(base, func=fname)); continue
            got = np.asarray(o.data, dtype='float64'); ref, tl = ref_f()
            inner = np.zeros(got.shape, bool); inner[1:-1, 1:-1] = True
            with np.errstate(invalid='ignore'):
                bad = inner & ~np.isnan(ref) & ~(np.abs(got - ref) <= tl)
            if bad.any():
                i = tuple(int(v) for v in np.argwhere(bad)[0])
                rec.violation(fname + '.formula_on_derived_raster', '%s on a raster decimated (%d,%d) from an already analysed one: got %r at %s, formula with the '
                              'derived raster\'s own cell size (%r,%r) gives %r' % (fname, sy, sx, got[i], i, cxs, cys, ref[i]), dict(base, func=fname, step=(sy, sx)))
            else:
                rec.ok('derived_raster_uses_own_cellsize')

    # ---- summarize_terrain is the three calls
    if not use_dask and idx % 4 == 0 and 'slope' in outs and 'aspect' in outs and 'curvature' in outs:
        rec.evaluation()
        ds = rec.call(summarize_terrain, r)
        if hasattr(ds, 'exc'):
            rec.violation('summarize_terrain.raises', 'summarize_terrain raised %r' % ds, base)
        else:
            good = True
            for nm in ('slope', 'aspect', 'curvature'):
                v = 'dem-' + nm
                if v not in ds or tol.first_diff_exact(np.asarray(ds[v].data, dtype='float64'), outs[nm]) is not None:
                    good = False
            if good:
                rec.ok('summarize_terrain')
            else:
                rec.violation('summarize_terrain.differs', 'summarize_terrain variables differ from slope/aspect/curvature called directly', base)
