"""C09 Focal results are statistics of exactly the cells under the kernel."""
import numpy as np
import xarray as xr

from vlib import gen, tol

PID = 'C09'
RULE = ("encoded-window probes: rasters with <= 24 cells holding distinct powers of two (some NaN), so nansum-type reducers return "
        "the bitmask of the cells they received - read back exactly for every output cell; kernels: every 0/1 3x3 mask (512, "
        "exhaustive), every 0/1 1x3/3x1 mask, random odd shapes up to 7x7 incl. non-square, asymmetric, larger than the raster; "
        "focal_stats (7 statistics, subsets/orders), mean (passes 0..3, excludes lists), convolution_2d (weighted kernels, NaN "
        "cells), hotspots (0/1 and weighted kernels) on rasters up to 12x12 in int/float dtypes; non-trivial = distinct (function, "
        "kernel, data hash) with an asymmetric or non-square kernel or a NaN cell under the window")
BUDGET = {'quick': 240, 'thorough': 700}
MODES = {'quick': [('J', 12), ('I', 4)], 'thorough': [('J', 12), ('I', 4)]}
FLOORS = {'quick': {'apply.window_set': 944, 'apply.window_positions': 800, 'kernel.asymmetric': 751, 'kernel.nonsquare': 300,
                    'focal_stats': 80, 'mean': 150, 'convolution': 150, 'hotspots.codes': 80, 'hotspots.negation': 80,
                    'kernel.3x3_exhaustive': 512},
          'thorough': {'apply.window_set': 4000, 'focal_stats': 600, 'mean': 600, 'convolution': 600, 'hotspots.codes': 500}}
DONTCARE_OF = {'hotspots.threshold_band': 'hotspots.cells_judged'}
EXHAUSTIVE = {'quick': ['all 512 0/1 kernels of shape 3x3, all 8 of shape 1x3 and 3x1 (encoded-window probe)'],
              'thorough': ['all 512 0/1 kernels of shape 3x3 on three rasters each, all 0/1 kernels of shape 1x3, 3x1, 1x5, 5x1, 3x5 sampled']}
ASSUMPTIONS = ['apply casts the raster to float32 (documented behaviour): encoded probes use <= 24 distinct powers of two, exact in float32',
               'statistic of an empty window (no valid cell under the kernel) is not judged except that it must not be a number other than 0 for sum',
               'hotspots cells whose float64 z-score is within the float32 rounding bound of a threshold are do-not-care']
E32 = tol.EPS32

_red = {}


def _reducers():
    """jitted (or plain, in interpreted mode) reducers used as probes."""
    if _red:
        return _red
    from xrspatial.utils import ngjit

    @ngjit
    def r_sum(a):
        return np.nansum(a)

    @ngjit
    def r_toprow(a):
        return np.nansum(a[0, :])

    @ngjit
    def r_leftcol(a):
        return np.nansum(a[:, 0])

    @ngjit
    def r_count(a):
        c = 0
        for i in range(a.shape[0]):
            for j in range(a.shape[1]):
                if not np.isnan(a[i, j]):
                    c += 1
        return c

    @ngjit
    def r_shape(a):
        return a.shape[0] * 100 + a.shape[1]

    @ngjit
    def r_corner(a):
        v = a[a.shape[0] - 1, a.shape[1] - 1]
        if np.isnan(v):
            return 0.0
        return v
    _red.update(sum=r_sum, toprow=r_toprow, leftcol=r_leftcol, count=r_count, shape=r_shape, corner=r_corner)
    return _red


def plan(tier, seed):
    out = []
    nblk = 16
    reps = 1 if tier == 'quick' else 6
    for r in range(reps):
        out += [('enc3x3', '%d,%d' % (b, r)) for b in range(nblk)]
    out += [('encline', 0)]
    n = 160 if tier == 'quick' else 4000
    out += [('enc', i) for i in range(n * 4)]
    out += [('stats', i) for i in range(n)]
    out += [('mean', i) for i in range(n)]
    out += [('conv', i) for i in range(n)]
    out += [('hot', i) for i in range(n)]
    return out


def shard_filter(descs, shard, nshards, mode):
    if mode == 'I':
        # interpreted kernels: cheap per call, used to multiply the window probes and the small statistics cases
        descs = [d for d in descs if d[0] in ('enc', 'encline', 'mean', 'conv') or (d[0] == 'enc3x3' and d[1].endswith(',0'))]
        return [d for i, d in enumerate(descs) if i % nshards == shard]
    descs = [d for d in descs if not (d[0] == 'enc' and int(d[1]) % 4 != 0)]
    return [d for i, d in enumerate(descs) if i % nshards == shard]


def _enc_raster(rng, H=None, W=None):
    shapes = [(1, 24), (24, 1), (2, 12), (12, 2), (3, 8), (8, 3), (4, 6), (6, 4), (5, 4), (4, 5), (3, 3), (2, 2), (1, 1), (3, 7), (7, 3), (4, 4), (5, 3)]
    if H is None:
        H, W = shapes[int(rng.integers(0, len(shapes)))]
    n = H * W
    exps = rng.permutation(24)[:n]
    a = (2.0 ** exps).reshape(H, W)
    nan = rng.random((H, W)) < float(rng.choice([0.0, 0.0, 0.15, 0.4]))
    a[nan] = np.nan
    return a, exps.reshape(H, W), nan


def _expected_sets(H, W, kernel, nan, row=None, col=None):
    """For each output cell the set (as bitmask over cell exponents given later) of raster cells received."""
    kh, kw = kernel.shape
    hr, hc = kh // 2, kw // 2
    out = []
    for y in range(H):
        rowl = []
        for x in range(W):
            cells = []
            for ky in range(kh):
                if row is not None and ky != row:
                    continue
                for kx in range(kw):
                    if col is not None and kx != col:
                        continue
                    yy, xx = y - hr + ky, x - hc + kx
                    if kernel[ky, kx] == 1 and 0 <= yy < H and 0 <= xx < W and not nan[yy, xx]:
                        cells.append((yy, xx))
            rowl.append(cells)
        out.append(rowl)
    return out


def _probe(rec, a, exps, nan, kernel, rng, pay_extra, count_exh=False):
    from xrspatial import focal
    R = _reducers()
    H, W = a.shape
    dt = 'float64'
    if not nan.any() and rng.random() < 0.15:
        dt = 'int32'
    r = gen.mk(gen.rand_layout(a.astype(dt), rng), attrs={'res': (1, 1)})
    pay = dict(raster=a, kernel=kernel, dtype=dt, **pay_extra)
    asym = not (np.array_equal(kernel, kernel[::-1]) and np.array_equal(kernel, kernel[:, ::-1]) and
                (kernel.shape[0] != kernel.shape[1] or np.array_equal(kernel, kernel.T)))
    nonsq = kernel.shape[0] != kernel.shape[1]

    def masks(cellsets):
        m = np.zeros((H, W))
        for y in range(H):
            for x in range(W):
                m[y, x] = sum(2.0 ** exps[c] for c in cellsets[y][x])
        return m
    probes = [('sum', None, None, 'apply.window_set')]
    probes.append(('toprow', 0, None, 'apply.window_positions'))
    probes.append(('leftcol', None, 0, 'apply.window_positions'))
    ok_all = True
    for pname, row, col, clause in probes:
        rec.evaluation()
        out = rec.call(focal.apply, r, kernel, R[pname])
        if hasattr(out, 'exc'):
            rec.violation('apply.raises', 'focal.apply raised %r' % out, dict(pay, reducer=pname)); return False
        got = np.asarray(out.data, dtype='float64')
        exp = masks(_expected_sets(H, W, kernel, nan, row, col))
        d = tol.first_diff_exact(got, exp)
        if d is not None:
            (i, j) = d[0] if isinstance(d, tuple) else (0, 0)
            gv = int(got[i, j]) if np.isfinite(got[i, j]) else -1
            ev = int(exp[i, j])
            def cells(mask):
                return sorted([(int(y), int(x)) for y in range(H) for x in range(W) if not nan[y, x] and (mask >> int(exps[y, x])) & 1])
            rec.violation('apply.window', 'focal.apply(%s): output cell %s saw cells %s, the kernel covers %s' %
                          (pname, (i, j), cells(gv) if gv >= 0 else got[i, j], cells(ev)), dict(pay, reducer=pname, got=got, expected=exp))
            ok_all = False
            break
        rec.ok(clause)
    if not ok_all:
        return False
    # window shape and NaN fill: count of non-NaN entries and window shape seen by the reducer
    rec.evaluation()
    oc = rec.call(focal.apply, r, kernel, R['count']); osh = rec.call(focal.apply, r, kernel, R['shape'])
    if hasattr(oc, 'exc') or hasattr(osh, 'exc'):
        rec.violation('apply.raises', 'focal.apply raised %r %r' % (oc, osh), pay); return False
    sets = _expected_sets(H, W, kernel, nan)
    expc = np.array([[len(sets[y][x]) for x in range(W)] for y in range(H)], dtype='float64')
    if tol.first_diff_exact(np.asarray(oc.data, dtype='float64'), expc) is not None:
        rec.violation('apply.window_fill', 'reducer received non-NaN values at positions that are not under a 1-entry (count mismatch)',
                      dict(pay, got=np.asarray(oc.data), expected=expc)); return False
    if not (np.asarray(osh.data, dtype='float64') == kernel.shape[0] * 100 + kernel.shape[1]).all():
        rec.violation('apply.window_shape', 'reducer received a window whose shape is not the kernel shape', pay); return False
    rec.ok('apply.window_fill_and_shape')
    if asym: rec.ok('kernel.asymmetric')
    if nonsq: rec.ok('kernel.nonsquare')
    if kernel.shape[0] > H or kernel.shape[1] > W: rec.ok('kernel.larger_than_raster')
    if nan.any(): rec.ok('raster.nan_cells')
    if count_exh: rec.ok('kernel.3x3_exhaustive')
    if asym or nonsq or nan.any():
        rec.nontriv('enc', a.tobytes(), kernel.tobytes(), kernel.shape)
    return True


def _window_vals(z32, kernel, y, x):
    H, W = z32.shape
    kh, kw = kernel.shape; hr, hc = kh // 2, kw // 2
    v = []
    for ky in range(kh):
        for kx in range(kw):
            yy, xx = y - hr + ky, x - hc + kx
            if kernel[ky, kx] == 1 and 0 <= yy < H and 0 <= xx < W and not np.isnan(z32[yy, xx]):
                v.append(z32[yy, xx])
    return np.array(v, dtype='float64')


def check(rec, kind, idx, rng, tier):
    from xrspatial import focal, convolution
    if kind == 'enc3x3':
        b, rep = map(int, idx.split(','))
        a, exps, nan = _enc_raster(rng, *[(4, 6), (3, 8), (5, 4)][rep % 3])
        for code in range(b * 32, b * 32 + 32):
            k = np.array([(code >> t) & 1 for t in range(9)], dtype='float64').reshape(3, 3)
            _probe(rec, a, exps, nan, k, rng, dict(kind='exhaustive 3x3', code=code), count_exh=True)
        return
    if kind == 'encline':
        a, exps, nan = _enc_raster(rng, 3, 7)
        for shape in ((1, 3), (3, 1)) + (((1, 5), (5, 1)) if tier == 'thorough' else ()):
            n = shape[0] * shape[1]
            for code in range(2 ** n):
                k = np.array([(code >> t) & 1 for t in range(n)], dtype='float64').reshape(shape)
                _probe(rec, a, exps, nan, k, rng, dict(kind='exhaustive line', code=code))
                _probe(rec, a.T.copy(), exps.T.copy(), nan.T.copy(), k, rng, dict(kind='exhaustive line', code=code))
        return
    if kind == 'enc':
        a, exps, nan = _enc_raster(rng)
        k = gen.kernel01(rng)
        if len(rec.samples) < 1:
            rec.sample(dict(raster=a, kernel=k, note='reducer=nansum returns the bitmask of received cells'))
        _probe(rec, a, exps, nan, k, rng, dict(kind='random'))
        return
    # ------------------------------------------------------------------
    H, W = int(rng.integers(1, 13)), int(rng.integers(1, 13))
    cls = str(rng.choice(['smallint', 'int', 'dyadic', 'uniform', 'ramp']))
    dtype = str(rng.choice(['float64', 'float64', 'float32', 'int32']))
    z = gen.values(rng, (H, W), cls, dtype)
    if z.dtype.kind == 'f' and rng.random() < 0.5:
        z = gen.sprinkle(z, rng, float(rng.choice([0.05, 0.2, 0.5]))).astype(dtype)
    if z.dtype.kind == 'f' and rng.random() < 0.25:
        # plateau: magnitude large against the local spread (one-pass variance formulas lose all digits here)
        z = (float(rng.choice([2400.0, 900.0, 65000.0])) + rng.uniform(0, 4, z.shape)).astype(z.dtype); cls = 'plateau'
    geom = gen.random_geom(rng)
    r = gen.mk(gen.rand_layout(z, rng), attrs={'res': (geom['cx'], geom['cy'])}, **geom)
    z32 = z.astype('float32').astype('float64')
    if kind == 'stats':
        k = gen.kernel01(rng)
        allst = ['mean', 'max', 'min', 'range', 'std', 'var', 'sum']
        if rng.random() < 0.3:
            st = None
        else:
            st = [str(s) for s in rng.permutation(allst)[:int(rng.integers(1, 8))]]
        rec.evaluation()
        out = rec.call(focal.focal_stats, r, k, st) if st is not None else rec.call(focal.focal_stats, r, k)
        use = st if st is not None else allst
        pay = dict(func='focal_stats', raster=z, kernel=k, stats=st, dtype=dtype)
        if hasattr(out, 'exc'):
            rec.violation('focal_stats.raises', 'focal_stats raised %r' % out, pay); return
        if tuple(out.shape) != (len(use), H, W) or out.dims[0] != 'stats' or [str(s) for s in out['stats'].values] != use:
            rec.violation('focal_stats.layout', 'focal_stats result is not (stats=%s, y, x): shape %s dims %s' % (use, out.shape, out.dims), pay); return
        got = np.asarray(out.data, dtype='float64')
        pay['got'] = got
        bad = None
        for y in range(H):
            for x in range(W):
                v = _window_vals(z32, k, y, x)
                n = len(v)
                for si, s in enumerate(use):
                    g = got[si, y, x]
                    if n == 0:
                        rec.cls('empty_window')
                        if s == 'sum' and not (np.isnan(g) or g == 0):
                            bad = (s, y, x, g, 0.0)
                        continue
                    m = v.mean(); var = ((v - m) ** 2).mean(); sabs = np.abs(v).sum()
                    if s == 'mean': ref, tl = m, 16 * E32 * sabs / n
                    elif s == 'sum': ref, tl = v.sum(), 16 * E32 * sabs
                    elif s == 'max': ref, tl = v.max(), 0.0
                    elif s == 'min': ref, tl = v.min(), 0.0
                    elif s == 'range': ref, tl = v.max() - v.min(), 4 * E32 * (abs(v.max()) + abs(v.min()))
                    else:
                        tv = 16 * n * E32 * var + 4 * (n * E32 * abs(m)) ** 2 + 1e-30
                        if s == 'var': ref, tl = var, tv
                        else: ref, tl = np.sqrt(var), np.sqrt(var + tv) - np.sqrt(max(var - tv, 0.0)) + 8 * E32 * np.sqrt(var)
                    if not (abs(g - ref) <= tl + 1e-12 * abs(ref)):
                        bad = (s, y, x, g, ref)
                if bad:
                    break
            if bad:
                break
        asym = not (np.array_equal(k, k[::-1]) and np.array_equal(k, k[:, ::-1]))
        if asym or k.shape[0] != k.shape[1] or np.isnan(z32).any():
            rec.nontriv('stats', z.tobytes(), k.tobytes(), k.shape, tuple(use))
        if bad:
            rec.violation('focal_stats.value', 'focal_stats[%s] at (%d,%d): got %r, statistic of the cells under the kernel is %r' % bad, pay)
        else:
            rec.ok('focal_stats'); rec.ok('focal_stats.cells', H * W * len(use))
        return
    if kind == 'mean':
        passes = int(rng.choice([0, 1, 1, 2, 3]))
        exname = str(rng.choice(['default', 'nan', 'zero', 'nan_zero', 'two', 'value']))
        excl = {'default': None, 'nan': [np.nan], 'zero': [0], 'nan_zero': [np.nan, 0.0], 'two': [1.0, 2.0]}.get(exname)
        if exname == 'value' and rng.random() < 0.6:
            z = rng.uniform(-100, 100, (H, W))                       # float64 values that float32 cannot represent
            if rng.random() < 0.5:
                z[rng.random((H, W)) < 0.3] = z[int(rng.integers(0, H)), int(rng.integers(0, W))]   # the excluded value occurs several times
            dtype = 'float64'
            r = gen.mk(z, attrs={'res': (geom['cx'], geom['cy'])}, **geom)
            z32 = z.astype('float32').astype('float64')
        if exname == 'value':
            # an excluded value taken from the raster itself, in the raster's own precision (float64 values are generally
            # not representable in float32)
            zf = z.astype('float64'); fin = zf[np.isfinite(zf)]
            excl = [float(fin[int(rng.integers(0, len(fin)))])] if len(fin) else [5.0]
        kw = dict(passes=passes)
        if rng.random() < 0.3 and passes == 1:
            kw = {}
        if excl is not None:
            kw['excludes'] = list(excl)
        rec.evaluation()
        out = rec.call(focal.mean, r, **kw)
        eff = [np.nan] if excl is None else excl
        pay = dict(func='mean', raster=z, kwargs=kw, dtype=dtype)
        if hasattr(out, 'exc'):
            rec.violation('mean.raises', 'focal.mean raised %r' % out, pay); return
        cur = z.astype('float64')
        tl = np.zeros((H, W))
        for _ in range(passes):
            nxt = cur.copy(); ntl = tl.copy()
            for y in range(H):
                for x in range(W):
                    c = cur[y, x]
                    if any((c == e) or (np.isnan(c) and np.isnan(e)) for e in eff):
                        continue
                    w = cur[max(y - 1, 0):y + 2, max(x - 1, 0):x + 2]
                    wt = tl[max(y - 1, 0):y + 2, max(x - 1, 0):x + 2]
                    v = w[~np.isnan(w)]
                    nxt[y, x] = v.mean() if len(v) else np.nan
                    ntl[y, x] = (wt[~np.isnan(w)].mean() if len(v) else 0) + 1e-13 * (np.abs(v).sum() if len(v) else 0)
            cur, tl = nxt, ntl
        got = np.asarray(out.data, dtype='float64')
        pay.update(got=got, expected=cur)
        with np.errstate(invalid='ignore'):
            bad = ~(((np.abs(got - cur) <= tl + 1e-300)) | (np.isnan(got) & np.isnan(cur))) if got.shape == cur.shape else np.ones(1, bool)
        # a cell whose running value lands within rounding of an excluded value is ambiguous in later passes
        if got.shape == cur.shape and passes >= 2 and bad.any():
            for e in eff:
                if not np.isnan(e) and (np.abs(cur - e) < 1e-9).any():
                    rec.dc('mean.value_near_excluded'); return
        if np.isnan(z32).any() or passes != 1 or exname != 'default':
            rec.nontriv('mean', z.tobytes(), passes, exname)
        if bad.any():
            i = tuple(int(v) for v in np.argwhere(bad)[0]) if got.shape == cur.shape else ()
            rec.violation('mean.value', 'focal.mean(passes=%d, excludes=%s) at %s: got %r expected %r' %
                          (passes, exname, i, got[i] if i else got.shape, cur[i] if i else cur.shape), pay)
        else:
            rec.ok('mean'); rec.cls('mean.passes.%d' % passes); rec.cls('mean.excludes.' + exname)
        return
    if kind == 'conv':
        kh = int(rng.choice([1, 3, 5, 7])); kw_ = int(rng.choice([1, 3, 5, 7]))
        mode = str(rng.choice(['01', 'weights', 'signed']))
        if mode == '01': k = gen.kernel01(rng, shape=(kh, kw_))
        elif mode == 'weights': k = np.round(rng.uniform(0, 2, (kh, kw_)), 2)
        else: k = rng.integers(-2, 3, (kh, kw_)).astype('float64')
        rec.evaluation()
        out = rec.call(convolution.convolution_2d, r, k)
        pay = dict(func='convolution_2d', raster=z, kernel=k, dtype=dtype)
        if hasattr(out, 'exc'):
            rec.violation('convolution.raises', 'convolution_2d raised %r' % out, pay); return
        got = np.asarray(out.data, dtype='float64')
        ref = np.full((H, W), np.nan); tl = np.zeros((H, W))
        hr, hc = kh // 2, kw_ // 2
        for y in range(hr, H - hr):
            for x in range(hc, W - hc):
                w = z32[y - hr:y + hr + 1, x - hc:x + hc + 1]
                with np.errstate(invalid='ignore'):
                    ref[y, x] = (k * w).sum()
                    tl[y, x] = 8 * E32 * np.nansum(np.abs(k * w)) + 1e-30
        pay.update(got=got, expected=ref)
        if got.shape != ref.shape:
            rec.violation('convolution.shape', 'shape %s' % (got.shape,), pay); return
        with np.errstate(invalid='ignore'):
            bad = ~((np.abs(got - ref) <= tl) | (np.isnan(got) & np.isnan(ref)))
        if k.shape[0] != k.shape[1] or not np.array_equal(k, k[::-1, ::-1]) or np.isnan(z32).any():
            rec.nontriv('conv', z.tobytes(), k.tobytes(), k.shape)
        if bad.any():
            i = tuple(int(v) for v in np.argwhere(bad)[0])
            mech = 'convolution.border' if np.isnan(ref[i]) else 'convolution.value'
            rec.violation(mech, 'convolution_2d at %s: got %r, kernel-weighted sum over the full window is %r' % (i, got[i], ref[i]), pay)
        else:
            rec.ok('convolution'); rec.cls('conv.kernel.%s' % mode)
            if kh != kw_: rec.ok('kernel.nonsquare')
        return
    if kind == 'hot':
        if H < 3: H = 3 + H
        if W < 3: W = 3 + W
        z = gen.values(rng, (H, W), str(rng.choice(['int', 'uniform', 'smallint'])), str(rng.choice(['float64', 'float32', 'int32', 'int64'])))
        if z.dtype.kind == 'f' and rng.random() < 0.3:
            z = (float(rng.choice([2500.0, 900.0, 12000.0])) + rng.uniform(0, 4, z.shape)).astype(z.dtype)      # plateau: mean >> spread
        # a few strong outliers so that every confidence level occurs
        for _ in range(int(rng.integers(0, 4))):
            y0, x0 = int(rng.integers(0, H)), int(rng.integers(0, W))
            z[max(0, y0 - 1):y0 + 2, max(0, x0 - 1):x0 + 2] = z[max(0, y0 - 1):y0 + 2, max(0, x0 - 1):x0 + 2] + z.dtype.type(rng.choice([300, -300, 80, -80]) if z.dtype.kind != 'u' else 80)
        if z.dtype.kind == 'f' and rng.random() < 0.3:
            z = gen.sprinkle(z, rng, 0.05, where='random').astype(z.dtype)
        z32 = z.astype('float32').astype('float64')
        if np.nanstd(z32) == 0 or not np.isfinite(z32).any():
            rec.rej('hotspots.zero_std'); return
        kh = int(rng.choice([1, 3, 3, 5])); kw_ = int(rng.choice([1, 3, 3, 5]))
        k = gen.kernel01(rng, shape=(kh, kw_))
        if rng.random() < 0.2:
            k = k * np.round(rng.uniform(0.5, 2, k.shape), 1)
        r = gen.mk(z, attrs={'res': (1, 1), 'nested': {'a': 1}}, **geom)
        rec.evaluation()
        out = rec.call(focal.hotspots, r, k)
        pay = dict(func='hotspots', raster=z, kernel=k)
        if hasattr(out, 'exc'):
            rec.violation('hotspots.raises', 'hotspots raised %r' % out, pay); return
        got = np.asarray(out.data)
        pay['got'] = got
        if not set(np.unique(got).tolist()) <= {0, 90, 95, 99, -90, -95, -99}:
            rec.violation('hotspots.codes', 'hotspots returned values %s' % np.unique(got).tolist(), pay); return
        gm = np.nanmean(z32); gs = np.nanstd(z32)
        kn = k / k.sum()
        hr, hc = kh // 2, kw_ // 2
        zs = np.full((H, W), np.nan); dz = np.zeros((H, W))
        for y in range(hr, H - hr):
            for x in range(hc, W - hc):
                w = z32[y - hr:y + hr + 1, x - hc:x + hc + 1]
                with np.errstate(invalid='ignore'):
                    m = (kn * w).sum()
                zs[y, x] = (m - gm) / gs
                dz[y, x] = 16 * E32 * (abs(m) + abs(gm) * np.log2(z32.size + 2) + gs) / gs if not np.isnan(m) else 0
        exp = np.zeros((H, W), dtype='int64'); band = np.zeros((H, W), bool)
        for y in range(H):
            for x in range(W):
                s = zs[y, x]
                if np.isnan(s):
                    continue
                a_ = abs(s)
                conf = 99 if a_ > 2.58 else 95 if a_ > 1.96 else 90 if a_ > 1.65 else 0
                exp[y, x] = int(np.sign(s)) * conf
                if any(abs(a_ - t) <= dz[y, x] for t in (1.65, 1.96, 2.58)):
                    band[y, x] = True
        judged = ~band
        rec.ok('hotspots.cells_judged', int(judged.sum())); rec.dc('hotspots.threshold_band', int(band.sum()))
        pay.update(expected=exp, zscore=zs)
        if got.shape != exp.shape or (got.astype('int64') != exp)[judged].any():
            i = tuple(int(v) for v in np.argwhere((got.astype('int64') != exp) & judged)[0]) if got.shape == exp.shape else ()
            rec.violation('hotspots.value', 'hotspots at %s: got %r, z-score %r gives %r' % (i, got[i] if i else None, zs[i] if i else None, exp[i] if i else None), pay)
            return
        rec.ok('hotspots.codes')
        for c in np.unique(exp[judged]):
            rec.cls('hotspots.level.%d' % c)
        if len(np.unique(exp)) >= 2:
            rec.nontriv('hot', z.tobytes(), k.tobytes())
        if z.dtype.kind != 'u':
            rneg = gen.mk((-z).astype(z.dtype), attrs={'res': (1, 1)}, **geom)
            o2 = rec.call(focal.hotspots, rneg, k)
            if hasattr(o2, 'exc'):
                rec.violation('hotspots.raises', 'hotspots(-raster) raised %r' % o2, pay)
            elif np.array_equal(np.asarray(o2.data).astype('int64'), -got.astype('int64')):
                rec.ok('hotspots.negation')
            else:
                rec.violation('hotspots.negation', 'hotspots(-raster) != -hotspots(raster)', pay)
        return
