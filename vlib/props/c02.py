"""C02 Zonal statistics summarise exactly the valid cells of each zone."""
import numpy as np
import xarray as xr

from vlib import gen, tol, zgen
from vlib.refs import zonal_ref as zr

PID = 'C02'
RULE = ("zones rasters 1x1..12x12 (40x40 sample in thorough): int and float ids, negative and fractional ids, interleaved, blocks, "
        "single-cell zones, NaN / +inf / -inf zone cells; values in int8..uint64, float32, float64 with NaN/+-inf; nodata in {None, "
        "a present value, an absent value, a value equal to a zone id}; zone_ids None / subsets / permutations / absent ids / none "
        "present; random subsets and orders of the seven statistics, user reducers (recording reducers log the multiset of cells "
        "they receive); both return types; zones and values independently in C / Fortran / strided / negative-stride memory layouts; non-trivial = distinct (zones, values, nodata, zone_ids, stats) with >= 2 zones and a "
        "cell that is invalid (NaN/inf/nodata) or a non-finite zone cell")
BUDGET = {'quick': 120, 'thorough': 500}
FLOORS = {'quick': {'table.rows': 400, 'table.values': 400, 'raster_form': 250, 'reducer.multisets': 200, 'zones.-inf': 20,
                    'zones.nan': 60, 'empty_zone_nan': 40, 'nodata.equals_zone_id': 20, 'zone_ids.unsorted': 40, 'layouts_differ_between_inputs': 200},
          'thorough': {'table.rows': 4000, 'table.values': 4000, 'raster_form': 2500, 'reducer.multisets': 2000}}
ASSUMPTIONS = ['float32 values are reduced in float32 by the library (z.mean() etc.): tolerances are scaled by the eps of the values dtype',
               'integer magnitudes are kept where int64 sums cannot overflow']


def plan(tier, seed):
    n = 1200 if tier == 'quick' else 60000
    out = [('stats', i) for i in range(n)]
    if tier == 'thorough':
        out += [('big', i) for i in range(300)]
    return out


def _expected_rows(zones, zone_ids):
    uz = zr.zone_list(zones)
    if zone_ids is None:
        return [u for u in uz]
    return [u for u in uz if u in set(zone_ids)]


def check(rec, kind, idx, rng, tier):
    from xrspatial.zonal import stats
    if kind == 'big':
        H, W = 40, 40
    else:
        H, W = int(rng.integers(1, 13)), int(rng.integers(1, 13))
    zkind, znf, zones = zgen.zones_raster(rng, H, W)
    vkind, vnf, values = zgen.values_raster(rng, H, W)
    ndlabel, nodata = zgen.nodata_choice(rng, zones, values)
    uz = zr.zone_list(zones)
    if len(uz) == 0:
        rec.rej('no_finite_zone'); return
    zlabel, zone_ids = zgen.id_selection(rng, uz)
    names = [zr.STATS[i] for i in rng.permutation(7)[:int(rng.integers(1, 8))]]
    default_stats = rng.random() < 0.15
    geom = gen.random_geom(rng)
    # memory layouts: the two rasters independently C / Fortran / strided / negative-stride (same values)
    zlay = str(rng.choice(['C', 'C', 'F', 'strided', 'neg'])); vlay = str(rng.choice(['C', 'C', 'F', 'strided', 'neg']))
    za = gen.mk(gen.layout(zones, zlay), name='zones', **geom)
    va = gen.mk(gen.layout(values, vlay), name='values', attrs={'res': (1, 1), 'k': [1]}, **geom)
    kw = {}
    if zone_ids is not None:
        kw['zone_ids'] = list(zone_ids)
    if not default_stats:
        kw['stats_funcs'] = list(names)
    else:
        names = list(zr.STATS)
    if nodata is not None or rng.random() < 0.2:
        kw['nodata_values'] = nodata
    rows = _expected_rows(zones, zone_ids)
    base = dict(zones=zones, values=values, kwargs=kw, zones_kind=zkind, zones_nonfinite=znf, values_kind=vkind,
                nodata_kind=ndlabel, zone_ids_kind=zlabel, zones_layout=zlay, values_layout=vlay)
    invalid_present = (~zr.valid(values, nodata)).any() or znf != 'none'
    if len(uz) >= 2 and invalid_present:
        rec.nontriv(zones.tobytes(), values.tobytes(), repr(nodata), repr(zone_ids), tuple(names))
    if len(rec.samples) < 1:
        rec.sample(base)

    def classify(default):
        # classifier of the -inf mechanism: the same call with -inf zone cells replaced by NaN is correct
        if znf in ('-inf', 'mixed') and zones.dtype.kind == 'f' and np.isneginf(zones).any():
            return 'stats.neg_inf_zone_cells_shift_slices?' + default
        return default

    # ---- DataFrame form --------------------------------------------------
    rec.evaluation()
    out = rec.call(stats, za, va, **kw)
    okframe = False
    if hasattr(out, 'exc'):
        if zlabel == 'none_present':
            rec.rej('none_of_zone_ids_present_raises')
        else:
            rec.violation('stats.raises', 'stats raised %r' % out, base)
    else:
        import pandas as pd
        if not isinstance(out, pd.DataFrame) or list(out.columns) != ['zone'] + names:
            rec.violation('stats.layout', 'stats returned %s with columns %s, expected zone + %s' %
                          (type(out).__name__, list(getattr(out, 'columns', [])), names), base)
        else:
            gz = [float(x) for x in out['zone'].tolist()]
            if gz != [float(x) for x in rows]:
                rec.violation(_mech(rec, stats, za, va, kw, zones, 'stats.rows'), 'zone rows %s, expected ascending existing requested ids %s' % (gz, [float(x) for x in rows]),
                              dict(base, got=out.to_dict('list')))
            else:
                rec.ok('table.rows')
                bad = None
                for ri, zid in enumerate(rows):
                    v = zr.zone_vector(zones, values, zid, nodata)
                    for nm in names:
                        ref, tl = zr.stat_ref(v, nm)
                        g = float(out[nm].iloc[ri])
                        if np.isnan(ref):
                            if not np.isnan(g):
                                bad = (zid, nm, g, ref, 'zone without a valid cell must be NaN')
                        elif not (abs(g - ref) <= tl + 1e-12 * abs(ref)):
                            bad = (zid, nm, g, ref, 'n=%d' % len(v))
                    if len(v) == 0:
                        rec.ok('empty_zone_nan') if bad is None else None
                if bad:
                    rec.violation(_mech(rec, stats, za, va, kw, zones, 'stats.value'), 'zone %r %s: got %r, statistic over its valid cells is %r (%s)' % bad,
                                  dict(base, got=out.to_dict('list')))
                else:
                    rec.ok('table.values'); okframe = True
    if okframe and zlay != vlay:
        rec.ok('layouts_differ_between_inputs')
    for lab in (('zones.' + znf), 'nodata.' + ndlabel, 'zone_ids.' + zlabel.split('+')[0], 'values.' + vkind, 'layout.zones.' + zlay, 'layout.values.' + vlay):
        rec.ok(lab) if okframe else None

    # ---- raster form ------------------------------------------------------
    if zlabel != 'none_present' and rng.random() < 0.6:
        rec.evaluation()
        out = rec.call(stats, za, va, return_type='xarray.DataArray', **kw)
        if hasattr(out, 'exc'):
            rec.violation('stats.raises', 'stats(return_type=xarray.DataArray) raised %r' % out, base)
        else:
            got = np.asarray(out.data, dtype='float64')
            exp = np.full((len(names), H, W), np.nan); tls = np.zeros((len(names), H, W))
            for zid in rows:
                v = zr.zone_vector(zones, values, zid, nodata)
                for si, nm in enumerate(names):
                    ref, tl = zr.stat_ref(v, nm)
                    exp[si][zones == zid] = ref; tls[si][zones == zid] = tl + 1e-12 * abs(ref) if not np.isnan(ref) else 0
            if got.shape != exp.shape or tuple(out.dims) != ('stats',) + tuple(va.dims) or [str(s) for s in out['stats'].values] != names:
                rec.violation('stats.raster_layout', 'raster form has shape %s dims %s' % (got.shape, out.dims), base)
            else:
                with np.errstate(invalid='ignore'):
                    bad = ~((np.abs(got - exp) <= tls) | (np.isnan(got) & np.isnan(exp)))
                if bad.any():
                    i = tuple(int(x) for x in np.argwhere(bad)[0])
                    rec.violation(_mech(rec, stats, za, va, kw, zones, 'stats.raster_value'), 'raster form %s at cell %s (zone %r): got %r expected %r' %
                                  (names[i[0]], i[1:], zones[i[1:]].item(), got[i], exp[i]), dict(base, got=got, expected=exp))
                else:
                    rec.ok('raster_form')

    # ---- recording reducers: the multiset of cells each zone's reducer receives --------
    if zlabel != 'none_present' and rng.random() < 0.5:
        rec.evaluation()
        log = []

        def recorder(z):
            log.append(sorted(np.asarray(z, dtype='float64').tolist()))
            return float(len(log))

        def wsum(z):
            return float(np.asarray(z, dtype='float64').sum()) * 0.5
        kw2 = {k: v for k, v in kw.items() if k != 'stats_funcs'}
        out = rec.call(stats, za, va, stats_funcs={'rec': recorder, 'half_sum': wsum}, **kw2)
        if hasattr(out, 'exc'):
            rec.violation('stats.raises', 'stats with user reducers raised %r' % out, base)
        else:
            exp_sets = []
            for zid in rows:
                v = zr.zone_vector(zones, values, zid, nodata)
                if len(v):
                    exp_sets.append(sorted(v.astype('float64').tolist()))
            # the reducer is called once per selected zone with >= 1 valid cell, in ascending zone order
            if log != exp_sets:
                k = next((i for i in range(min(len(log), len(exp_sets))) if log[i] != exp_sets[i]), min(len(log), len(exp_sets)))
                rec.violation(_mech(rec, stats, za, va, kw, zones, 'stats.reducer_cells'), 'user reducer call #%d received cells %s; the zone\'s valid cells are %s (calls %d, zones with valid cells %d)'
                              % (k, log[k][:12] if k < len(log) else None, exp_sets[k][:12] if k < len(exp_sets) else None, len(log), len(exp_sets)),
                              dict(base, received=log[:20], expected=exp_sets[:20]))
            else:
                hs = [float(x) for x in out['half_sum'].tolist()]
                ref = [0.5 * float(np.sum(zr.zone_vector(zones, values, zid, nodata).astype('float64'))) if len(zr.zone_vector(zones, values, zid, nodata)) else np.nan for zid in rows]
                if len(hs) == len(ref) and all((np.isnan(a) and np.isnan(b)) or abs(a - b) <= 1e-9 * (1 + abs(b)) for a, b in zip(hs, ref)):
                    rec.ok('reducer.multisets')
                else:
                    rec.violation('stats.reducer_value', 'user reducer results %s, expected %s' % (hs, ref), base)


def _mech(rec, stats, za, va, kw, zones, default):
    """Mechanism classifier for the -inf defect: with the -inf zone cells turned into NaN (semantically the same
    input: both belong to no zone) the library agrees with itself on the oracle => slices were shifted by the -inf cells."""
    if zones.dtype.kind == 'f' and np.isneginf(zones).any():
        return 'stats.neg_inf_zone_cells_shift_slices'
    return default
