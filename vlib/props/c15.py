"""C15 Polygonize is lossless: rasterising the polygons gives back the raster."""
import numpy as np
import xarray as xr

from vlib import gen
from vlib.refs import flood
from vlib.props.c16 import _structured, _shapes

PID = 'C15'
RULE = ("exhaustive: every raster over {0,1} with <= 12 cells (thorough 14) and over {0,1,2} with <= 9 cells, every HxW "
        "factorisation incl. 1xN, Nx1, 1x1, connectivity 4 and 8; every (raster, mask) pair over {0,1} for <= 6 cells; random: "
        "<= 12x12 rings/spirals/combs/noise in int32/int64/float32/float64 (incl. large integer ids differing by one), C/F/transposed/strided/negative-stride memory layouts of raster and mask, random masks and affine transforms; oracle = "
        "even-odd point-in-polygon rasteriser + BFS components; non-trivial = distinct (raster, mask, connectivity) with a hole, "
        "a provisional-label merge or an 8-connected pinch")
BUDGET = {'quick': 240, 'thorough': 1200}
FLOORS = {'quick': {'lossless': 40000, 'with_hole': 300, 'needs_merge': 3000, 'masked': 5000, 'single_column': 100,
                    'pinch8': 1000, 'transform': 100, 'nested_hole': 5, 'layout.non_C': 139, 'bigint_ids': 40},
          'thorough': {'lossless': 300000, 'with_hole': 3000, 'nested_hole': 50}}
EXHAUSTIVE = {'quick': ['{0,1}^(HxW) for all H*W<=12, connectivity {4,8}', '{0,1,2}^(HxW) for all H*W<=9 (1/3 sample at 9 cells)',
                        'all (raster, mask) in {0,1}^(HxW) x {0,1}^(HxW) for H*W<=6'],
              'thorough': ['{0,1}^(HxW) for all H*W<=14, connectivity {4,8}', '{0,1,2}^(HxW) for all H*W<=9',
                           'all (raster, mask) in {0,1}^(HxW) x {0,1}^(HxW) for H*W<=7']}
ASSUMPTIONS = ['mode J only: polygonize cannot run with NUMBA_DISABLE_JIT (its overload-based _is_close degenerates)',
               'integer-valued cell values (the float comparison is isclose-based)']


def plan(tier, seed):
    out = []
    m2 = 12 if tier == 'quick' else 14
    for (h, w) in _shapes(m2):
        total = 2 ** (h * w)
        nblk = max(1, total // 1024)
        for b in range(nblk):
            out.append(('exh2', '%d,%d,%d,%d' % (h, w, b, nblk)))
    for (h, w) in _shapes(9, 2):
        total = 3 ** (h * w)
        nblk = max(1, total // 1024)
        for b in range(nblk):
            out.append(('exh3', '%d,%d,%d,%d' % (h, w, b, nblk)))
    mm = 6 if tier == 'quick' else 7
    for (h, w) in _shapes(mm):
        total = 4 ** (h * w)
        nblk = max(1, total // 1024)
        for b in range(nblk):
            out.append(('exhm', '%d,%d,%d,%d' % (h, w, b, nblk)))
    n = 500 if tier == 'quick' else 5000
    out += [('rand', i) for i in range(n)]
    return out


def _area(ring):
    x = ring[:, 0]; y = ring[:, 1]
    return 0.5 * float(np.sum(x[:-1] * y[1:] - x[1:] * y[:-1]))


def _inside(ring, px, py):
    """even-odd rule using the vertical edges of an axis-parallel ring; centres are never on an edge."""
    x = ring[:, 0]; y = ring[:, 1]
    c = np.zeros(px.shape, bool)
    for i in range(len(x) - 1):
        y0, y1 = y[i], y[i + 1]
        if y0 == y1:
            continue
        c ^= ((y0 > py) != (y1 > py)) & (px < x[i])
    return c


def judge(rec, a, mask, conn, res, extra=None, sample=False):
    """a: 2-D values, mask: None or bool 2-D (True = include). res = (column, polygons) in index space."""
    H, W = a.shape
    pay = dict(raster=a, mask=mask, connectivity=conn, **(extra or {}))
    try:
        column, polys = res
        column = list(column); polys = [list(p) for p in polys]
    except Exception:
        rec.violation('polygonize.malformed', 'result is not (column, polygons)', pay); return False
    pay['column'] = column
    pay['polygons'] = [[np.asarray(r).tolist() for r in p] for p in polys][:40]
    um = np.ones((H, W), bool) if mask is None else np.asarray(mask).astype(bool)
    comp, k = flood.components(a, conn, mask=um)
    jj, ii = np.mgrid[0:H, 0:W]
    px = ii + 0.5; py = jj + 0.5
    count = np.zeros((H, W), int)
    holes = 0; nested = False
    seen_comp = set()
    if len(column) != len(polys):
        rec.violation('polygonize.malformed', 'column has %d entries, %d polygons' % (len(column), len(polys)), pay); return False
    hole_masks = []
    for v, rings in zip(column, polys):
        if len(rings) < 1:
            rec.violation('polygonize.malformed', 'polygon without exterior', pay); return False
        rings = [np.asarray(r, dtype='float64') for r in rings]
        for r in rings:
            if r.ndim != 2 or r.shape[1] != 2 or len(r) < 4:
                rec.violation('polygonize.ring', 'ring is not an (n>=4, 2) array', pay); return False
            if not np.array_equal(r[0], r[-1]):
                rec.violation('polygonize.ring_open', 'ring not closed', pay); return False
            d = np.diff(r, axis=0)
            if not (((d[:, 0] == 0) ^ (d[:, 1] == 0))).all():
                rec.violation('polygonize.ring_edges', 'ring has a non-axis-parallel or zero-length edge', pay); return False
            if not np.array_equal(r, np.round(r)) or r.min() < 0 or r[:, 0].max() > W or r[:, 1].max() > H:
                rec.violation('polygonize.ring_vertices', 'vertex not on a cell corner of the raster', pay); return False
        ext = rings[0]
        A = _area(ext)
        if not A > 0:
            rec.violation('polygonize.orientation', 'exterior ring is not anticlockwise (signed area %r)' % A, pay); return False
        m = _inside(ext, px, py)
        for hole in rings[1:]:
            ah = _area(hole)
            if not ah < 0:
                rec.violation('polygonize.orientation', 'hole ring is not clockwise (signed area %r)' % ah, pay); return False
            hm = _inside(hole, px, py)
            if (hm & ~m).any():
                rec.violation('polygonize.hole_outside', 'hole not inside its exterior', pay); return False
            hole_masks.append(hm)
            m &= ~hm
            A += ah
            holes += 1
        if abs(A - m.sum()) > 1e-9:
            rec.violation('polygonize.area', 'polygon area %r != cell count %d' % (A, int(m.sum())), pay); return False
        if not m.any():
            rec.violation('polygonize.empty', 'polygon covers no cell centre', pay); return False
        ids = np.unique(comp[m])
        if len(ids) != 1 or ids[0] == 0 or not np.array_equal(m, comp == ids[0]):
            rec.violation('polygonize.not_a_component', 'polygon cells are not exactly one connected region of equal value '
                          '(covers component ids %s)' % ids.tolist(), pay); return False
        cellv = a[m]
        if not (cellv.astype('float64') == float(v)).all():
            rec.violation('polygonize.value', 'polygon value %r but cells hold %r' % (v, np.unique(cellv).tolist()), pay); return False
        if int(ids[0]) in seen_comp:
            rec.violation('polygonize.duplicate', 'component polygonised twice', pay); return False
        seen_comp.add(int(ids[0]))
        count += m
    if (count[um] != 1).any() or (count[~um] != 0).any():
        rec.violation('polygonize.coverage', 'an unmasked cell is in %s polygons / a masked cell is covered'
                      % np.unique(count[um]).tolist(), pay); return False
    if len(polys) != k:
        rec.violation('polygonize.count', '%d polygons for %d components' % (len(polys), k), pay); return False
    rec.ok('lossless'); rec.ok('conn%d' % conn)
    # coverage classes of the workload
    nontriv = False
    if holes:
        rec.ok('with_hole'); nontriv = True
        # nested: some polygon lies entirely inside a hole that itself lies inside another polygon's exterior -> at least
        # two levels: a hole containing a cell that belongs to a polygon which itself has a hole
        for hm in hole_masks:
            for v, rings in zip(column, polys):
                if len(rings) > 1:
                    m2 = _inside(np.asarray(rings[0], dtype='float64'), px, py)
                    if (m2 & ~hm).sum() == 0 and m2.any():
                        nested = True
        if nested:
            rec.ok('nested_hole')
    av = a.astype('float64').copy()
    if mask is not None:
        av[~um] = np.nan
        rec.ok('masked')
    mg = flood.merge_depth_classes(av, conn)
    if mg:
        rec.ok('needs_merge'); nontriv = True
        rec.mx('max_provisional_merges', mg)
    if conn == 8:
        comp4, k4 = flood.components(a, 4, mask=um)
        if k4 > k:
            rec.ok('pinch8'); nontriv = True
    if W == 1:
        rec.ok('single_column')
    if H == 1:
        rec.ok('single_row')
    if nontriv:
        rec.nontriv(a.shape, conn, a.tobytes(), None if mask is None else um.tobytes())
    rec.mx('max_polygons', len(polys)); rec.mx('max_holes_in_case', holes)
    if sample:
        rec.sample(pay)
    return True


def check(rec, kind, idx, rng, tier):
    from xrspatial.experimental.polygonize import polygonize
    if kind.startswith('exh'):
        h, w, b, nblk = map(int, idx.split(','))
        base = {'exh2': 2, 'exh3': 3, 'exhm': 4}[kind]
        total = base ** (h * w)
        lo = total * b // nblk; hi = total * (b + 1) // nblk
        step = 3 if (tier == 'quick' and kind == 'exh3' and h * w == 9) else 1
        for code in range(lo + (b % step), hi, step):
            digits = np.empty(h * w, dtype=np.int64)
            c = code
            for t in range(h * w):
                digits[t] = c % base; c //= base
            if kind == 'exhm':
                a = (digits % 2).reshape(h, w).astype('int64'); mask = (digits // 2).reshape(h, w).astype(bool)
            else:
                a = digits.reshape(h, w).astype('int64'); mask = None
            r = xr.DataArray(a)
            mk = None if mask is None else xr.DataArray(mask)
            for conn in (4, 8):
                rec.evaluation()
                res = rec.call(polygonize, r, mask=mk, connectivity=conn)
                if hasattr(res, 'exc'):
                    rec.violation('polygonize.raises', 'polygonize raised %r' % res, dict(raster=a, mask=mask, connectivity=conn)); continue
                judge(rec, a, mask, conn, res, sample=(kind == 'exh2' and h == 3 and w == 4 and code == lo + 2000 and conn == 4))
        return
    H, W = int(rng.integers(1, 13)), int(rng.integers(1, 13))
    if rng.random() < 0.12: W = 1
    elif rng.random() < 0.1: H = 1
    skind, a = _structured(rng, H, W)
    if rng.random() < 0.3:
        # nested rings of several values => nested holes
        yy, xx = np.mgrid[0:H, 0:W]
        ring = np.minimum(np.minimum(yy, H - 1 - yy), np.minimum(xx, W - 1 - xx))
        a = (ring % int(rng.choice([2, 3]))).astype(float); skind = 'nested'
    if rng.random() < 0.12:
        # many single-cell regions (every cell its own value) plus one U-shaped region near the start of the scan: far more
        # provisional region ids than the initial merge table holds, one early merge, none afterwards
        if rng.random() < 0.5:
            H, W = int(rng.integers(9, 17)), int(rng.integers(9, 17))
        else:
            H, W = int(rng.integers(2, 4)), int(rng.integers(40, 81))
        a = (np.arange(H * W).reshape(H, W) + 10).astype(float)
        r0 = int(rng.integers(0, H - 1)); c0 = int(rng.integers(0, W - 4)); wdt = int(rng.integers(2, min(6, W - c0 - 1) + 1))
        a[r0, c0] = 1; a[r0, c0 + wdt] = 1; a[r0 + 1, c0:c0 + wdt + 1] = 1
        if rng.random() < 0.5: a = a[::-1].copy()
        if rng.random() < 0.3:
            a = a.T.copy()
        H, W = a.shape
        skind = 'unique_cells+U'
    comb = rng.random() < 0.06
    if comb:
        # a long comb: N teeth on every other column, neighbouring teeth bridged alternately on two rows, a separate first
        # column and a full-width bar that only the last tooth reaches - one region whose provisional ids are merged through a
        # chain of N links before the chain meets a still lower id
        N = int(rng.integers(10, 33))
        a = np.zeros((5, 3 + 2 * N))
        a[:, 0] = 1
        for t in range(N):
            a[0:3, 2 + 2 * t] = 1
        for t in range(N - 1):
            a[1 if t % 2 == 0 else 2, 3 + 2 * t] = 1
        a[3, 2 + 2 * (N - 1)] = 1
        a[4, :] = 1
        o = int(rng.integers(0, 4))
        if o == 1: a = a[::-1].copy()
        elif o == 2: a = a[:, ::-1].copy()
        elif o == 3: a = a.T.copy()
        H, W = a.shape
        skind = 'long_comb'
    dt = str(rng.choice(['int32', 'int64', 'float32', 'float64']))
    a = (a * float(rng.choice([1, 1, 5])) + float(rng.choice([0, 0, -2, 40]))).astype(dt)
    if np.dtype(dt).kind == 'i' and rng.random() < 0.35:
        # large integer ids that differ by one: integers are distinct values whatever their magnitude
        a = (a.astype('int64') + int(rng.choice([100000, 3000000, 2 ** 30]))).astype(dt)
        skind += '+bigint'
    if rng.random() < 0.08:
        # unsigned 64-bit ids at the top of the range
        dt = 'uint64'; a = (a.astype('int64') - a.astype('int64').min()).astype('uint64') + np.uint64(2 ** 64 - 8); skind += '+uint64_top'
    mask = None
    if rng.random() < 0.5 and not comb:
        mask = rng.random((H, W)) < float(rng.choice([0.5, 0.8, 0.95]))
    mdt = str(rng.choice(['bool', 'int64', 'float64']))
    lay = str(rng.choice(['C', 'C', 'F', 'strided', 'neg', 'T']))
    mlay = lay if rng.random() < 0.5 else str(rng.choice(['C', 'F', 'strided']))
    def _lay(arr, kind_):
        if kind_ == 'T':
            return np.ascontiguousarray(arr.T).T      # transposed view of a C array (= F order)
        return gen.layout(arr, kind_)
    a = _lay(a, lay)
    r = xr.DataArray(a)
    mk = None if mask is None else xr.DataArray(_lay(mask.astype(mdt), mlay))
    rec.cls('layout.' + lay)
    if lay not in ('C',):
        rec.ok('layout.non_C')
    tr = None
    if rng.random() < 0.5:
        tr = np.array([float(rng.choice([1, 2, 0.5, 30])), 0.0, float(rng.choice([0, 10, -100.5])),
                       0.0, float(rng.choice([1, -1, -30, 0.25])), float(rng.choice([0, 5, 1000.0]))])
        if rng.random() < 0.3:
            tr[1] = 0.5; tr[3] = -0.25    # shear/rotation terms
        if rng.random() < 0.2:
            tr = np.array([1.0, float(rng.choice([0.5, -1.0, 2.0])), 0.0, float(rng.choice([0.0, 1.0, -0.25])), 1.0, 0.0])     # unit scale, zero offset, shear only
            rec.cls('transform.shear_only')
    for conn in (4, 8):
        rec.evaluation()
        res = rec.call(polygonize, r, mask=mk, connectivity=conn)
        extra = dict(structure=skind, dtype=dt, mask_dtype=mdt, layout=lay, mask_layout=mlay)
        if hasattr(res, 'exc'):
            rec.violation('polygonize.raises', 'polygonize raised %r' % res, dict(raster=a, mask=mask, connectivity=conn, **extra)); continue
        rec.cls('random.' + skind.split('+')[0]); rec.cls('dtype.' + dt)
        ok = judge(rec, a, mask, conn, res, extra, sample=(idx == 1 and conn == 8))
        if ok and skind.endswith('+bigint'):
            rec.ok('bigint_ids')
        if ok and tr is not None:
            rec.evaluation()
            res_t = rec.call(polygonize, r, mask=mk, connectivity=conn, transform=tr if rng.random() < 0.5 else tr.tolist())
            pay = dict(raster=a, mask=mask, connectivity=conn, transform=tr, **extra)
            if hasattr(res_t, 'exc'):
                rec.violation('polygonize.raises', 'polygonize with transform raised %r' % res_t, pay); continue
            good = list(res_t[0]) == list(res[0]) and len(res_t[1]) == len(res[1])
            if good:
                for p0, p1 in zip(res[1], res_t[1]):
                    if len(p0) != len(p1):
                        good = False; break
                    for r0, r1 in zip(p0, p1):
                        r0 = np.asarray(r0, dtype='float64'); r1 = np.asarray(r1, dtype='float64')
                        ex = np.stack([tr[0] * r0[:, 0] + tr[1] * r0[:, 1] + tr[2], tr[3] * r0[:, 0] + tr[4] * r0[:, 1] + tr[5]], axis=1)
                        if r1.shape != ex.shape or not np.allclose(r1, ex, rtol=1e-12, atol=1e-9):
                            good = False; break
            if good:
                rec.ok('transform')
            else:
                rec.violation('polygonize.transform', 'transform not applied to every vertex (or changes the polygon set)', pay)
