#!/usr/bin/env python3
"""Developer tool: apply a one-off textual mutation to a scratch worktree of /repo and run checks against it.
   tools/muttest.py --checks C13 --file xrspatial/multispectral.py --old 'a' --new 'b' [--count 1] [--tier quick]
"""
import argparse, os, subprocess, shutil, sys
ap = argparse.ArgumentParser()
ap.add_argument('--checks', required=True); ap.add_argument('--file', required=True)
ap.add_argument('--old', required=True); ap.add_argument('--new', required=True)
ap.add_argument('--count', type=int, default=1); ap.add_argument('--tier', default='quick'); ap.add_argument('--tag', default='m')
a = ap.parse_args()
wt = '/tmp/seedtest/mut-%s-%d' % (a.tag, os.getpid())
os.makedirs('/tmp/seedtest', exist_ok=True)
subprocess.run(['git', '-C', '/repo', 'worktree', 'add', '-q', '--detach', wt, 'HEAD'], check=True)
try:
    p = os.path.join(wt, a.file); s = open(p).read()
    old = a.old.encode().decode('unicode_escape'); new = a.new.encode().decode('unicode_escape')
    assert s.count(old) >= 1, 'pattern not found'
    if a.count and s.count(old) != a.count:
        print('WARNING: pattern occurs %d times' % s.count(old))
    open(p, 'w').write(s.replace(old, new))
    for c in a.checks.split(','):
        e2 = dict(os.environ, VERIF_REPO=wt, VERIF_EVIDENCE_DIR='/tmp/seedtest/evidence')
        r = subprocess.run(['python3', '/verif/run.py', c, '--tier', a.tier], env=e2, cwd='/verif', capture_output=True, text=True)
        lines = [l for l in r.stdout.splitlines() if l.startswith(('VIOLATION', 'KNOWN', 'INCONCLUSIVE', 'VERDICT', '  mechanism'))]
        print(c, 'rc=%d' % r.returncode); print('\n'.join(lines[:8]))
finally:
    subprocess.run(['git', '-C', '/repo', 'worktree', 'remove', '--force', wt], capture_output=True)
    shutil.rmtree(wt, ignore_errors=True)
